"""Vet one sub-agent mutation in its scratch worktree and, if it holds up, keep it
under /verif/seeded/<id>/ (patch.diff, demo.py, notes.md, meta.json).

usage: vet_seed.py <worktree> <mutation dir> <seed id> <property> "<needs>"
"""
import json, os, shutil, subprocess, sys

wt, mdir, sid, prop, needs = sys.argv[1:6]
env = dict(os.environ, PYTHONPATH=os.path.join(wt, "src"))
py = "/venv/bin/python"
patch = os.path.join(mdir, "patch.diff")

def run(cmd, **k):
    return subprocess.run(cmd, capture_output=True, text=True, env=env, **k)

def suite():
    r = run([py, "-m", "pytest", "-q", "-p", "no:cacheprovider", "--timeout=900", "--continue-on-collection-errors", "--ignore=_seed"], cwd=wt)
    tail = [l for l in r.stdout.strip().splitlines() if " passed" in l or " failed" in l][-1:]
    return tail[0] if tail else r.stdout[-200:]

assert run(["git", "-C", wt, "status", "--porcelain", "--", "src"]).stdout.strip() == "", "worktree not pristine"
d0 = run([py, os.path.join(mdir, "demo.py")], cwd=mdir, timeout=900)
assert run(["git", "-C", wt, "apply", "--check", patch]).returncode == 0, "patch does not apply"
run(["git", "-C", wt, "apply", patch])
try:
    s1 = suite()
    d1 = run([py, os.path.join(mdir, "demo.py")], cwd=mdir, timeout=900)
finally:
    run(["git", "-C", wt, "checkout", "--", "src"])
ok = d0.returncode == 0 and d1.returncode != 0 and "187 passed" in s1 and "12 failed" in s1
print(f"{sid}: demo pristine={d0.returncode} patched={d1.returncode} suite_patched='{s1}' -> {'KEEP' if ok else 'REJECT'}")
if not ok:
    print(d0.stdout[-500:], d0.stderr[-500:], d1.stdout[-300:], d1.stderr[-300:])
    sys.exit(1)
dst = os.path.join("/verif/seeded", sid)
os.makedirs(dst, exist_ok=True)
for f in ("patch.diff", "demo.py", "notes.md"):
    if os.path.exists(os.path.join(mdir, f)):
        shutil.copy(os.path.join(mdir, f), os.path.join(dst, f))
meta = {
    "id": sid,
    "property": prop,
    "origin": "independent sub-agent given only the property text and a scratch worktree",
    "needs_to_manifest": needs,
    "vetted": {
        "demo_exit_pristine": d0.returncode,
        "demo_exit_patched": d1.returncode,
        "suite_with_patch": s1,
        "commands": [
            f"PYTHONPATH=<wt>/src {py} demo.py   (pristine worktree, then with patch.diff applied)",
            f"cd <wt> && PYTHONPATH=<wt>/src {py} -m pytest -q -p no:cacheprovider --timeout=900 --continue-on-collection-errors   (with patch.diff applied)",
        ],
    },
    "check_result": None,
}
json.dump(meta, open(os.path.join(dst, "meta.json"), "w"), indent=1)
