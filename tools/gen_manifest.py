"""Regenerates MANIFEST.json from the table below (kept in one place so the
not_applicable list and the checks cannot drift apart)."""
import json, os, subprocess

ROOT = os.path.dirname(os.path.dirname(os.path.abspath(__file__)))

CHECKS = {
    "C18": dict(
        engine="netsim-thread",
        category="exploration",
        text="Seeded search over thread schedules of the real Node/PeerThread code under a baton scheduler (line/opcode/IO pre-emption points), "
        "virtual-time sockets and scripted peers; the recorded history is checked against a per-peer reference (replies in order, queue content exactly the unhandled messages). "
        "Sampling, not enumeration: a clean batch is evidence; reach is reported as distinct interleavings of the queue/handler steps.",
        design_ref="DESIGN.md §4.2, §5 C18",
        note="Trusted: /verif/ref frame parser and payload builders, the baton scheduler, CPython atomicity of C-level container operations. Peers, sockets, clock are stubs; Node, PeerThread, recv_msg, handlers are real.",
        technique="deterministic simulation: seeded thread-schedule search (baton-passing real threads, sys.settrace pre-emption) with virtual-time network faults",
    ),
}

CHECKS["C17"] = dict(
    engine="netsim-stream",
    category="exploration",
    text="Seeded search over stream segmentations (cuts independent of frame boundaries, short reads, delays in virtual time) and single network faults (bit flip per header field / payload, "
    "truncation + close at a seeded offset, foreign magic) for streams of 1-3 frames; recv_msg's call-by-call results must refine the reference frame parser run on the same faulty bytes, "
    "terminate after EOF within a bounded number of recv calls, and library-built payloads must parse back to the fields they were built from. "
    "Further strata: traffic on another network earlier in the same process, a new connection after one that died inside a message (optionally with the dead socket object's identity recycled), and 2-3 simulated receiver threads inside recv_msg on separate connections under the baton scheduler.",
    design_ref="DESIGN.md §4.2, §5 C17, §9.7",
    note="Trusted: /verif/ref/frames.py (pinned to fixed points). Socket, network, peer, clock are stubs; recv_msg, msg_ser, payload builders and parsers are real. No timeout on the socket (mid-frame timeouts are outside the quantifier).",
    technique="deterministic simulation: seeded fragmentation schedules + injected stream faults (bit flip, truncation/EOF, foreign magic) against a reference parser; bounded-liveness check on EOF",
)

CHECKS["C19"] = dict(
    engine="fssim",
    category="fault_enumeration",
    text="Histories of write batches (sizes around the scaled file limit, restarts, empty / missing / pre-populated directories incl. >10 files) are sampled by seed; for each history the I/O calls of the "
    "fault-free run are counted and the history is re-executed with a process crash before EVERY call, after every mutating call and torn at every raw write (all split points for small writes), plus seeded EIO / ENOSPC / close errors / short writes. "
    "After every acknowledged batch the files must equal the reference record stream exactly (numbering, size bound, record-aligned file ends); after a crash or error they must be a byte prefix of it containing all earlier batches.",
    design_ref="DESIGN.md §4.3, §5 C19",
    note="Trusted: /verif/ref/blockfiles.py, SimFS primitives, CPython's real io.BufferedWriter running on the simulated raw file. Process-crash model only (no power-loss / fsync semantics). Histories are sampled; crash points inside a sampled history are enumerated completely up to a per-history cap that is reported.",
    technique="deterministic simulation: simulated disk with crash-point enumeration (crash-before/after every I/O call, torn writes) and injected I/O errors, checked against a record-stream reference model",
)

CHECKS["C01"] = dict(
    engine="rngsim",
    category="exploration",
    text="The nonce exists only behind the entropy seam, so signing is run under a scripted random source: histories of signatures by 1-4 signers in all three API modes with tapes of boundary draws (0 - incl. several in a row -, 1, n-1, n-2), "
    "repeated draws across signatures, and digests crafted from the known next draw to force the s=0 retry, low-S negation and short / high-bit r,s. Each signature is checked by the library's verifiers (compressed and uncompressed key), "
    "an independent ECDSA implementation, OpenSSL and a BIP66 checker; the history is checked for shared r between signatures whose (key, digest) differ while the source did not repeat; retry loops must end within 4 draws after the last injected fault. "
    "A further stratum runs 2-3 simulated caller threads signing concurrently under the baton scheduler (line-level pre-emption inside ecmath/utils/keys, freshly imported package per run) with the same per-signature and shared-r oracles. "
    "A fork stratum forks the signing process (real os.fork) at planned points of a history; the child continues on its own seeded entropy stream, and the shared-r oracle spans parent and children.",
    design_ref="DESIGN.md §4.1, §5 C01, §9.7",
    note="Trusted: /verif/ref/secp256k1.py, /verif/ref/ecdsa_der.py, OpenSSL. No scheduler or clock in this engine: the only simulated nondeterminism is the random source; inputs (keys, messages) are seeded. r == 0 retry is unreachable by construction.",
    technique="deterministic simulation of the entropy source (scripted boundary / repeated / crafted nonce draws behind the secrets seam) with history oracle for nonce reuse and bounded-liveness of retry loops",
)
CHECKS["C03"] = dict(
    engine="rngsim",
    category="exploration",
    text="Scoped to the clauses of C03 that have a seam: key generation (API and `bits key` CLI in-process) is run under a scripted random source returning 0, 1, n-1, n-2, mid-range, repeated values and pairs differing only in high or low bits; "
    "every generated key must lie in [1, n-1] and be accepted by privkey_int, its public keys (both forms) must equal the reference k*G and decode back, distinct draws must give distinct keys, and generation must terminate shortly after the last zero draw. "
    "A further stratum runs 2-4 simulated caller threads generating keys and deriving public keys concurrently under the baton scheduler, each run from a freshly imported package, so races on shared module state show up as a wrong k*G.",
    design_ref="DESIGN.md §4.1, §5 C03, §9.7",
    note="Decided: key generation, 'public key = kG' for generated keys, refusal of malformed private keys over histories, concurrent callers. The group-law clauses over all points/scalars are pure functions and are NOT claimed by this technique; a few differential probes of point_add / point_scalar_mul against the reference run incidentally inside each history (clause `group-law`) and are reported as incidental reach only. Trusted: /verif/ref/secp256k1.py.",
    technique="deterministic simulation of the entropy source (scripted boundary / repeated / paired draws) around key generation; scoped claim",
)

CHECKS["C16"] = dict(
    engine="nodesim",
    category="exploration",
    text="send_tx is run as a client of a simulated bitcoind (real rpc_method over the urlopen seam, amounts as 8-decimal JSON text, seeded listing order, injected HTTP/RPC failures) over a UTXO ledger with 2-4 identities of every sender kind "
    "(m-of-n <= 3) and histories of 1-5 sends whose valid results are applied to the ledger. Every returned transaction is checked against the ledger: inputs only from the reported set, exact satoshi conservation, recipient and change amounts and scripts, "
    "version/locktime, and - when signed - every input under independent legacy and BIP143 signature hashes for all six sighash flags with a template-level validator. Under an injected RPC fault the call may raise but must never return a transaction; a send whose amount is below the fee must be refused. "
    "A further stratum runs 2-3 simulated send_tx callers with different keys concurrently under the baton scheduler; every run starts from a freshly imported package.",
    design_ref="DESIGN.md §4.4, §5 C16, §9.7",
    note="Trusted: /verif/ref/txref.py (pinned to the BIP143 example transactions, all six hashtypes), /verif/ref/addr.py, /verif/ref/secp256k1.py. The fake node implements scantxoutset only; validator is template-level, not a script interpreter. One open known finding (D14: raw-script recipient / change, bare-multisig sender without change address are refused) is matched by feature; a clean stratum (single input at vout 0, SIGHASH_ALL, v1, locktime 0, exact amounts) must produce no finding at all.",
    technique="deterministic simulation of the remote party (in-process bitcoind + ledger behind the RPC seam, injected RPC faults, scripted entropy) with conservation and signature-validity invariants over send histories",
)

NA = {
    "C02": "ecmath.verify / sig_verify / point / ensure_sig_low_s read no RNG, clock, stream, file or shared state: acceptance is a pure function of (pubkey, message, signature bytes); mutated tuples are input generation, not a fault schedule.",
    "C04": "tx_deser is a pure function of the buffer; 'whatever bytes follow' is a second input, not a fault on a seam the code reads from.",
    "C05": "Pure serialiser/parser pair over in-memory bytes; no stream, clock or shared state.",
    "C06": "Pure encode/decode/classify functions of one byte string.",
    "C07": "Pure functions of one byte string.",
    "C08": "Pure dispatcher over its argument; the 'configurations' are network/type arguments, not an environment.",
    "C09": "HMAC/EC derivations and (de)serialisation are pure; wallet.hd draws entropy but the property is about derivation, not generation.",
    "C10": "Pure conversions (word list read once from a packaged file); `bits mnemonic` draws entropy but the property constrains only the conversions.",
    "C11": "witness_message is a pure function of its arguments (it is exercised inside the C16 simulation, where a wrong message shows up as an invalid signature).",
    "C12": "bip340.sign touches the RNG only to default `aux`, which is also an explicit argument; every clause is a pure function of (sk, msg, aux) or (pk, msg, sig).",
    "C13": "Pure functions over programs and byte strings.",
    "C14": "Pure codecs; OpenSSL interoperability is a differential test against an external tool, not a simulation.",
    "C15": "merkle_root, coinbase_tx, block_ser, block_deser are pure; mine_block meets clock and RPC but the property constrains the builders, not the mining loop.",
    "C20": "main() is a deterministic function of argv, stdin bytes and two config files each read once; the configuration product is finite - deciding it is enumeration, not seeded search over schedules and faults.",
}

PENDING = {}  # claimed in DESIGN.md but check not built yet: listed nowhere until it exists


def main():
    checks = []
    for pid in sorted(CHECKS):
        c = CHECKS[pid]
        checks.append(
            {
                "property_id": pid,
                "quick_cmd": f"./check {pid} --tier quick",
                "thorough_cmd": f"./check {pid} --tier thorough",
                "evidence_file": f"evidence/{pid}.json",
                "replay_cmd_template": f"./check {pid} --replay {{path}}",
                "engine": c["engine"],
                "level_claimed": {"category": c["category"], "text": c["text"], "design_ref": c["design_ref"]},
                "level_note": c["note"],
                "technique": c["technique"],
            }
        )
    fixes = []
    try:
        out = subprocess.run(["git", "-C", "/repo", "log", "--format=%H %s"], capture_output=True, text=True).stdout
        hooks = [l.split()[0] for l in out.splitlines() if " hook:" in l or l.split(" ", 1)[1].startswith("hook")]
    except Exception:
        hooks = []
    m = {
        "version": 1,
        "setup_cmd": "./check --selftest refs",
        "hooks": {
            "guard": "BITS_VERIF",
            "enable": "none needed: every seam is a module attribute rebound by the harness at run time (bits.p2p.socket/time/os/open, bits.ecmath.secrets, bits.keys.secrets, bits.rpc.urlopen/time); no hook commit exists in /repo",
            "baseline_off_cmd": "cd /repo && /venv/bin/python -m pytest -ra -q -p no:cacheprovider --timeout=900 --continue-on-collection-errors",
            "source_commits": hooks,
            "add_only": True,
        },
        "engines": [
            {"name": "netsim-thread", "path": "sim/sched.py sim/netsim.py sim/p2penv.py", "serves_properties": ["C18"], "kind_free_text": "virtual-time discrete-event network + baton-passing scheduler over real threads"},
            {"name": "netsim-stream", "path": "sim/netsim.py sim/sched.py", "serves_properties": ["C17"], "kind_free_text": "virtual-time byte-stream with seeded fragmentation, corruption and EOF; concurrent receivers under the baton scheduler"},
            {"name": "fssim", "path": "sim/fssim.py", "serves_properties": ["C19"], "kind_free_text": "in-memory file system with process-crash semantics under real io.Buffered* objects; crash point enumeration"},
            {"name": "rngsim", "path": "sim/rngsim.py sim/callersim.py", "serves_properties": ["C01", "C03"], "kind_free_text": "scripted entropy source (boundary / repeated draws) behind the secrets seam; simulated caller threads under the baton scheduler for the concurrent strata"},
            {"name": "nodesim", "path": "sim/nodesim.py sim/callersim.py", "serves_properties": ["C16"], "kind_free_text": "in-process fake bitcoind + UTXO ledger behind the urlopen seam; concurrent callers under the baton scheduler"},
        ],
        "checks": checks,
        "notes": "Technique family: deterministic simulation with fault injection. See DESIGN.md. known_findings.json lists fixed and open findings. Checks exit 2 (HARNESS-ERROR, no VIOLATION line) when the machinery itself fails.",
        "not_applicable": [{"property_id": k, "reason": NA[k]} for k in sorted(NA)],
    }
    m["engines"] = [e for e in m["engines"] if any(p in CHECKS for p in e["serves_properties"])]
    for e in m["engines"]:
        e["serves_properties"] = [p for p in e["serves_properties"] if p in CHECKS]
    with open(os.path.join(ROOT, "MANIFEST.json"), "w") as f:
        json.dump(m, f, indent=1)
        f.write("\n")


if __name__ == "__main__":
    main()
