"""Byte-exact in-place replacement that keeps a file's CRLF/LF style.
usage: repl.py FILE OLDFILE NEWFILE   (old/new text files, LF)"""
import sys

def repl(path, old, new, count=1):
    b = open(path, "rb").read()
    crlf = b"\r\n" in b
    o = old.encode(); n = new.encode()
    if crlf:
        o = o.replace(b"\n", b"\r\n"); n = n.replace(b"\n", b"\r\n")
    assert b.count(o) == count, f"{path}: expected {count} occurrence(s), found {b.count(o)}"
    open(path, "wb").write(b.replace(o, n))

if __name__ == "__main__":
    repl(sys.argv[1], open(sys.argv[2]).read(), open(sys.argv[3]).read())
