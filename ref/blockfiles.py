"""
Reference model of the block file store: one record stream, cut into numbered
files.  Shares no code with bits.

record = magic(4) | len(block) as 4-byte LE | block
"""
import re

NAME = re.compile(r"^blk(\d{5})\.dat$")


def record(magic, block):
    return magic + len(block).to_bytes(4, "little") + block


def stream(magic, blocks):
    return b"".join(record(magic, b) for b in blocks)


def boundaries(magic, blocks, start=0):
    out = {start}
    pos = start
    for b in blocks:
        pos += 8 + len(b)
        out.add(pos)
    return out


def pack(magic, blocks, limit):
    """Greedy packing (used only to pre-populate directories)."""
    files = [bytearray()]
    for b in blocks:
        r = record(magic, b)
        if len(files[-1]) + len(r) > limit:
            files.append(bytearray())
        files[-1] += r
    return {"blk%05d.dat" % i: bytes(f) for i, f in enumerate(files)}


def read_dir(files):
    """files: {name: bytes}.  Returns (ordered [(number, name, bytes)], other names)."""
    blk = []
    other = []
    for name in sorted(files):
        m = NAME.match(name)
        if m:
            blk.append((int(m.group(1)), name, files[name]))
        else:
            other.append(name)
    blk.sort()
    return blk, other


def selftest():
    m = b"\xf9\xbe\xb4\xd9"
    assert record(m, b"ab") == m + b"\x02\x00\x00\x00ab"
    fs = pack(m, [b"a" * 8, b"b" * 8, b"c" * 9], 32)
    assert sorted(fs) == ["blk00000.dat", "blk00001.dat"] and len(fs["blk00000.dat"]) == 32 and len(fs["blk00001.dat"]) == 17
    blk, other = read_dir(dict(fs, **{"notes.txt": b"x"}))
    assert [n for n, _, _ in blk] == [0, 1] and other == ["notes.txt"]
    assert b"".join(d for _, _, d in blk) == stream(m, [b"a" * 8, b"b" * 8, b"c" * 9])
    assert boundaries(m, [b"", b"x"]) == {0, 8, 17}
    return True
