"""
Reference implementation of the Bitcoin P2P frame layer, written from the
protocol documentation, sharing no code with bits.

frame = magic(4) | command(12, NUL padded) | length(4 LE) | sha256d(payload)[:4] | payload
"""
import hashlib


def sha256d(b):
    return hashlib.sha256(hashlib.sha256(b).digest()).digest()


def frame(magic, command, payload=b""):
    if isinstance(command, str):
        command = command.encode("ascii")
    assert len(magic) == 4 and len(command) <= 12
    return (
        magic
        + command.ljust(12, b"\x00")
        + len(payload).to_bytes(4, "little")
        + sha256d(payload)[:4]
        + payload
    )


class FrameError(Exception):
    pass


def parse_stream(stream, magic):
    """Yield ("msg", magic, cmd12, payload, end_offset) for every well-formed frame in
    order; on the first malformed or truncated frame yield ("error", reason, offset)
    and stop.  A clean end of stream yields nothing further."""
    pos = 0
    n = len(stream)
    out = []
    while pos < n:
        if n - pos < 24:
            out.append(("error", "truncated-header", pos))
            return out
        m = stream[pos : pos + 4]
        cmd = stream[pos + 4 : pos + 16]
        ln = int.from_bytes(stream[pos + 16 : pos + 20], "little")
        ck = stream[pos + 20 : pos + 24]
        if n - (pos + 24) < ln:
            out.append(("error", "truncated-payload", pos))
            return out
        payload = stream[pos + 24 : pos + 24 + ln]
        if sha256d(payload)[:4] != ck:
            out.append(("error", "checksum", pos))
            return out
        if m != magic:
            out.append(("error", "magic", pos))
            return out
        pos += 24 + ln
        out.append(("msg", bytes(m), bytes(cmd), bytes(payload), pos))
    return out


def compact_size(n):
    if n < 253:
        return bytes([n])
    if n <= 0xFFFF:
        return b"\xfd" + n.to_bytes(2, "little")
    if n <= 0xFFFFFFFF:
        return b"\xfe" + n.to_bytes(4, "little")
    return b"\xff" + n.to_bytes(8, "little")


def read_compact_size(b, pos=0):
    f = b[pos]
    if f < 253:
        return f, pos + 1
    if f == 253:
        return int.from_bytes(b[pos + 1 : pos + 3], "little"), pos + 3
    if f == 254:
        return int.from_bytes(b[pos + 1 : pos + 5], "little"), pos + 5
    return int.from_bytes(b[pos + 1 : pos + 9], "little"), pos + 9


# self-test fixed point: the first bytes any mainnet node sends ("verack" frame)
VERACK_MAINNET = bytes.fromhex("f9beb4d976657261636b000000000000000000005df6e0e2")


def selftest():
    assert frame(b"\xf9\xbe\xb4\xd9", "verack") == VERACK_MAINNET
    r = parse_stream(VERACK_MAINNET * 2, b"\xf9\xbe\xb4\xd9")
    assert [x[0] for x in r] == ["msg", "msg"] and r[1][4] == 48
    assert parse_stream(VERACK_MAINNET[:-1], b"\xf9\xbe\xb4\xd9")[0][:2] == ("error", "truncated-header")
    bad = bytearray(frame(b"\xf9\xbe\xb4\xd9", "ping", b"\x01" * 8))
    bad[-1] ^= 1
    assert parse_stream(bytes(bad), b"\xf9\xbe\xb4\xd9")[0][:2] == ("error", "checksum")
    assert compact_size(252) == b"\xfc" and compact_size(253) == b"\xfd\xfd\x00"
    assert read_compact_size(b"\xfe\x00\x00\x01\x00") == (65536, 5)
    return True
