"""
Reference builders for P2P payloads (from the protocol documentation), used by
scripted peers.  Shares no code with bits.
"""
from .frames import compact_size

INV_TYPES = {
    "MSG_TX": 1,
    "MSG_BLOCK": 2,
    "MSG_FILTERED_BLOCK": 3,
    "MSG_CMPCT_BLOCK": 4,
    "MSG_WITNESS_TX": 0x40000001,
    "MSG_WITNESS_BLOCK": 0x40000002,
}


def ping(nonce):
    return nonce.to_bytes(8, "little")


def version(
    protocol_version=70015,
    services=1,
    timestamp=1700000000,
    recv_services=0,
    recv_ip=b"::ffff:127.0.0.1",
    recv_port=8333,
    trans_services=1,
    trans_ip=b"::ffff:127.0.0.1",
    trans_port=8333,
    nonce=0,
    user_agent=b"/ref:1/",
    start_height=0,
    relay=True,
):
    assert len(recv_ip) == 16 and len(trans_ip) == 16
    return (
        protocol_version.to_bytes(4, "little")
        + services.to_bytes(8, "little")
        + timestamp.to_bytes(8, "little")
        + recv_services.to_bytes(8, "little")
        + recv_ip
        + recv_port.to_bytes(2, "big")
        + trans_services.to_bytes(8, "little")
        + trans_ip
        + trans_port.to_bytes(2, "big")
        + nonce.to_bytes(8, "little")
        + compact_size(len(user_agent))
        + user_agent
        + start_height.to_bytes(4, "little")
        + (b"\x01" if relay else b"\x00")
    )


def inv(items):
    """items: list of (type name, 32-byte hash)"""
    return compact_size(len(items)) + b"".join(
        INV_TYPES[t].to_bytes(4, "little") + h for t, h in items
    )


def net_addr(time, services8, ip16, port):
    return time.to_bytes(4, "little") + services8 + ip16 + port.to_bytes(2, "big")


def addr(entries):
    return compact_size(len(entries)) + b"".join(net_addr(*e) for e in entries)


def getheaders(protocol_version, hashes, stop_hash):
    return (
        protocol_version.to_bytes(4, "little")
        + compact_size(len(hashes))
        + b"".join(hashes)
        + stop_hash
    )


def feefilter(rate):
    return rate.to_bytes(8, "little")


def sendcmpct(announce, ver):
    return bytes([announce]) + ver.to_bytes(8, "little")
