"""
Independent secp256k1 / ECDSA reference (Jacobian coordinates).  Shares no code
with bits.  Pinned by selftest() to public fixed points.
"""
P = 2**256 - 2**32 - 977
N = 0xFFFFFFFFFFFFFFFFFFFFFFFFFFFFFFFEBAAEDCE6AF48A03BBFD25E8CD0364141
GX = 0x79BE667EF9DCBBAC55A06295CE870B07029BFCDB2DCE28D959F2815B16F81798
GY = 0x483ADA7726A3C4655DA4FBFC0E1108A8FD17B448A68554199C47D08FFB10D4B8
G = (GX, GY)
INF = None


def on_curve(pt):
    if pt is None:
        return True
    x, y = pt
    return 0 <= x < P and 0 <= y < P and (y * y - x * x * x - 7) % P == 0


def _jdbl(p):
    X, Y, Z = p
    if Y == 0 or Z == 0:
        return (0, 1, 0)
    S = 4 * X * Y * Y % P
    M = 3 * X * X % P
    X2 = (M * M - 2 * S) % P
    Y2 = (M * (S - X2) - 8 * Y * Y * Y * Y) % P
    Z2 = 2 * Y * Z % P
    return (X2, Y2, Z2)


def _jadd(p, q):
    if p[2] == 0:
        return q
    if q[2] == 0:
        return p
    X1, Y1, Z1 = p
    X2, Y2, Z2 = q
    Z1Z1 = Z1 * Z1 % P
    Z2Z2 = Z2 * Z2 % P
    U1 = X1 * Z2Z2 % P
    U2 = X2 * Z1Z1 % P
    S1 = Y1 * Z2 * Z2Z2 % P
    S2 = Y2 * Z1 * Z1Z1 % P
    if U1 == U2:
        if S1 != S2:
            return (0, 1, 0)
        return _jdbl(p)
    H = (U2 - U1) % P
    R = (S2 - S1) % P
    HH = H * H % P
    HHH = H * HH % P
    V = U1 * HH % P
    X3 = (R * R - HHH - 2 * V) % P
    Y3 = (R * (V - X3) - S1 * HHH) % P
    Z3 = H * Z1 * Z2 % P
    return (X3, Y3, Z3)


def _to_affine(p):
    if p[2] == 0:
        return None
    zi = pow(p[2], -1, P)
    zi2 = zi * zi % P
    return (p[0] * zi2 % P, p[1] * zi2 * zi % P)


def add(a, b):
    ja = (0, 1, 0) if a is None else (a[0], a[1], 1)
    jb = (0, 1, 0) if b is None else (b[0], b[1], 1)
    return _to_affine(_jadd(ja, jb))


def neg(a):
    return None if a is None else (a[0], (-a[1]) % P)


def mul(k, pt=G):
    if pt is None or k % N == 0:
        return None
    k %= N
    acc = (0, 1, 0)
    base = (pt[0], pt[1], 1)
    for bit in bin(k)[2:]:
        acc = _jdbl(acc)
        if bit == "1":
            acc = _jadd(acc, base)
    return _to_affine(acc)


def pub_bytes(k, compressed=True):
    x, y = mul(k)
    if compressed:
        return bytes([2 + (y & 1)]) + x.to_bytes(32, "big")
    return b"\x04" + x.to_bytes(32, "big") + y.to_bytes(32, "big")


def decode_pub(b):
    if len(b) == 33 and b[0] in (2, 3):
        x = int.from_bytes(b[1:], "big")
        if x >= P:
            return None
        y2 = (x * x * x + 7) % P
        y = pow(y2, (P + 1) // 4, P)
        if y * y % P != y2:
            return None
        if (y & 1) != (b[0] & 1):
            y = P - y
        return (x, y)
    if len(b) == 65 and b[0] == 4:
        pt = (int.from_bytes(b[1:33], "big"), int.from_bytes(b[33:], "big"))
        return pt if on_curve(pt) and pt[0] < P and pt[1] < P else None
    return None


def ecdsa_sign_with_k(d, z, k):
    """Textbook ECDSA with a given nonce, no normalisation: returns (r, s) or None."""
    R = mul(k)
    if R is None:
        return None
    r = R[0] % N
    if r == 0:
        return None
    s = pow(k, -1, N) * (z + r * d) % N
    return (r, s)


def ecdsa_verify(pub, z, r, s):
    if pub is None or not on_curve(pub):
        return False
    if not (1 <= r < N and 1 <= s < N):
        return False
    w = pow(s, -1, N)
    u1 = z * w % N
    u2 = r * w % N
    R = add(mul(u1), mul(u2, pub))
    if R is None:
        return False
    return R[0] % N == r


def selftest():
    assert on_curve(G)
    assert mul(1) == G
    assert mul(2) == (
        0xC6047F9441ED7D6D3045406E95C07CD85C778E4B8CEF3CA7ABAC09B95C709EE5,
        0x1AE168FEA63DC339A3C58419466CEAEEF7F632653266D0E1236431A950CFE52A,
    )
    assert mul(3) == (
        0xF9308A019258C31049344F85F89D5229B531C845836F99B08601F113BCE036F9,
        0x388F7B0F632DE8140FE337E62A37F3566500A99934C2231B6CB9FD7584B8E672,
    )
    assert mul(N) is None and mul(N - 1) == neg(G) and mul(N + 1) == G
    assert add(G, neg(G)) is None and add(G, G) == mul(2) and add(mul(2), G) == mul(3)
    assert pub_bytes(1).hex() == "0279be667ef9dcbbac55a06295ce870b07029bfcdb2dce28d959f2815b16f81798"
    assert decode_pub(pub_bytes(12345, False)) == mul(12345) == decode_pub(pub_bytes(12345, True))
    # a(bG) = (ab)G, (a+b)G = aG + bG
    a, b = 0xDEADBEEF12345, 0xC0FFEE9876543210ABCDEF
    assert mul(a, mul(b)) == mul(a * b) and add(mul(a), mul(b)) == mul(a + b)
    r, s = ecdsa_sign_with_k(a, 0x1234, b)
    assert ecdsa_verify(mul(a), 0x1234, r, s) and ecdsa_verify(mul(a), 0x1234, r, N - s)
    assert not ecdsa_verify(mul(a), 0x1235, r, s) and not ecdsa_verify(mul(a + 1), 0x1234, r, s)
    # OpenSSL cross-check when available
    try:
        from cryptography.hazmat.primitives.asymmetric import ec

        key = ec.derive_private_key(a, ec.SECP256K1())
        nums = key.public_key().public_numbers()
        assert (nums.x, nums.y) == mul(a)
    except ImportError:
        pass
    return True
