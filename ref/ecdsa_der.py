"""
Strict DER signature encoding check, transcribed from BIP66 (IsValidSignatureEncoding),
plus a minimal parser.  Input to is_strict_der INCLUDES the trailing sighash byte.
"""


def is_strict_der(sig):
    if len(sig) < 9 or len(sig) > 73:
        return False
    if sig[0] != 0x30:
        return False
    if sig[1] != len(sig) - 3:
        return False
    lenR = sig[3]
    if 5 + lenR >= len(sig):
        return False
    lenS = sig[5 + lenR]
    if lenR + lenS + 7 != len(sig):
        return False
    if sig[2] != 0x02:
        return False
    if lenR == 0:
        return False
    if sig[4] & 0x80:
        return False
    if lenR > 1 and sig[4] == 0x00 and not (sig[5] & 0x80):
        return False
    if sig[lenR + 4] != 0x02:
        return False
    if lenS == 0:
        return False
    if sig[lenR + 6] & 0x80:
        return False
    if lenS > 1 and sig[lenR + 6] == 0x00 and not (sig[lenR + 7] & 0x80):
        return False
    return True


def parse(sig_no_hashtype):
    """Returns (r, s) of a strict-DER signature without the sighash byte."""
    lenR = sig_no_hashtype[3]
    r = int.from_bytes(sig_no_hashtype[4 : 4 + lenR], "big")
    lenS = sig_no_hashtype[5 + lenR]
    s = int.from_bytes(sig_no_hashtype[6 + lenR : 6 + lenR + lenS], "big")
    return r, s


def encode(r, s):
    def i(v):
        b = v.to_bytes((v.bit_length() + 8) // 8 or 1, "big")
        return b"\x02" + bytes([len(b)]) + b

    body = i(r) + i(s)
    return b"\x30" + bytes([len(body)]) + body


def selftest():
    # a well-formed 70-byte signature + hashtype ...
    good = bytes.fromhex(
        "304402200cdd3abd4a0e4a7a3ef0f9f5c2b8e6b6a8a7fdc7a1a3b8e4a3a0d5d9c5d1e2f302201f2e3d4c5b6a79880f1e2d3c4b5a69788f0e1d2c3b4a59687f0e1d2c3b4a596801"
    )
    assert is_strict_der(good)
    # ... and the classic malformations
    assert not is_strict_der(good[:-2] + b"\x01")  # length mismatch
    neg_r = bytearray(good); neg_r[4] |= 0x80
    assert not is_strict_der(bytes(neg_r))  # negative R
    padded = encode(1, 1)[:2]  # build: R with unnecessary leading zero
    bad = b"\x30\x08\x02\x02\x00\x01\x02\x02\x00\x01\x01"
    assert not is_strict_der(bad)
    assert is_strict_der(b"\x30\x06\x02\x01\x01\x02\x01\x01\x01")
    assert not is_strict_der(b"\x30\x06\x02\x01\x01\x02\x01\x01")  # too short (no hashtype -> 8 bytes)
    assert encode(0x80, 0x7F) == bytes.fromhex("300702020080" + "02017f")
    assert parse(encode(2**255, 12345)) == (2**255, 12345)
    n = 0xFFFFFFFFFFFFFFFFFFFFFFFFFFFFFFFEBAAEDCE6AF48A03BBFD25E8CD0364141
    assert is_strict_der(encode(n - 1, n // 2) + b"\x01") and len(encode(n - 1, n // 2)) == 71
    assert not is_strict_der(b"\x31" + good[1:])
    return True
