"""
Reference address / script-template encoders and decoders (Base58Check, Bech32,
Bech32m, standard scriptPubKey templates).  Shares no code with bits.
"""
import hashlib

B58 = "123456789ABCDEFGHJKLMNPQRSTUVWXYZabcdefghijkmnopqrstuvwxyz"
CHARSET = "qpzry9x8gf2tvdw0s3jn54khce6mua7l"
BECH32M_CONST = 0x2BC830A3


def sha256(b):
    return hashlib.sha256(b).digest()


def sha256d(b):
    return sha256(sha256(b))


def hash160(b):
    return hashlib.new("ripemd160", sha256(b)).digest()


def b58encode(b):
    n = int.from_bytes(b, "big")
    out = ""
    while n:
        n, r = divmod(n, 58)
        out = B58[r] + out
    pad = len(b) - len(b.lstrip(b"\x00"))
    return "1" * pad + out


def b58decode(s):
    n = 0
    for c in s:
        n = n * 58 + B58.index(c)
    pad = len(s) - len(s.lstrip("1"))
    body = n.to_bytes((n.bit_length() + 7) // 8, "big") if n else b""
    return b"\x00" * pad + body


def b58check(payload):
    return b58encode(payload + sha256d(payload)[:4])


def b58check_decode(s):
    raw = b58decode(s)
    if len(raw) < 5 or sha256d(raw[:-4])[:4] != raw[-4:]:
        raise ValueError("bad base58check")
    return raw[:-4]


def _polymod(values):
    gen = [0x3B6A57B2, 0x26508E6D, 0x1EA119FA, 0x3D4233DD, 0x2A1462B3]
    chk = 1
    for v in values:
        b = chk >> 25
        chk = (chk & 0x1FFFFFF) << 5 ^ v
        for i in range(5):
            chk ^= gen[i] if ((b >> i) & 1) else 0
    return chk


def _hrp_expand(hrp):
    return [ord(x) >> 5 for x in hrp] + [0] + [ord(x) & 31 for x in hrp]


def _convertbits(data, frombits, tobits, pad=True):
    acc = 0
    bits = 0
    ret = []
    maxv = (1 << tobits) - 1
    for value in data:
        acc = (acc << frombits) | value
        bits += frombits
        while bits >= tobits:
            bits -= tobits
            ret.append((acc >> bits) & maxv)
    if pad:
        if bits:
            ret.append((acc << (tobits - bits)) & maxv)
    elif bits >= frombits or ((acc << (tobits - bits)) & maxv):
        return None
    return ret


def segwit_encode(hrp, witver, prog):
    const = 1 if witver == 0 else BECH32M_CONST
    data = [witver] + _convertbits(prog, 8, 5)
    values = _hrp_expand(hrp) + data
    pm = _polymod(values + [0] * 6) ^ const
    chk = [(pm >> 5 * (5 - i)) & 31 for i in range(6)]
    return hrp + "1" + "".join(CHARSET[d] for d in data + chk)


def segwit_decode(addr):
    if addr.lower() != addr and addr.upper() != addr:
        raise ValueError("mixed case")
    addr = addr.lower()
    pos = addr.rfind("1")
    if pos < 1 or pos + 7 > len(addr) or len(addr) > 90:
        raise ValueError("bad bech32")
    hrp = addr[:pos]
    data = [CHARSET.index(c) for c in addr[pos + 1 :]]
    pm = _polymod(_hrp_expand(hrp) + data)
    witver = data[0]
    if pm != (1 if witver == 0 else BECH32M_CONST):
        raise ValueError("bad checksum")
    prog = _convertbits(data[1:-6], 5, 8, False)
    if prog is None or not (2 <= len(prog) <= 40) or witver > 16:
        raise ValueError("bad program")
    if witver == 0 and len(prog) not in (20, 32):
        raise ValueError("bad v0 program")
    return hrp, witver, bytes(prog)


HRP = {"mainnet": "bc", "testnet": "tb", "regtest": "bcrt"}
P2PKH_VER = {"mainnet": 0x00, "testnet": 0x6F, "regtest": 0x6F}
P2SH_VER = {"mainnet": 0x05, "testnet": 0xC4, "regtest": 0xC4}


# ---- script templates
def push(data):
    n = len(data)
    if n < 0x4C:
        return bytes([n]) + data
    if n <= 0xFF:
        return b"\x4c" + bytes([n]) + data
    if n <= 0xFFFF:
        return b"\x4d" + n.to_bytes(2, "little") + data
    return b"\x4e" + n.to_bytes(4, "little") + data


def spk_p2pk(pub):
    return push(pub) + b"\xac"


def spk_p2pkh(h):
    return b"\x76\xa9\x14" + h + b"\x88\xac"


def spk_p2sh(h):
    return b"\xa9\x14" + h + b"\x87"


def spk_witness(ver, prog):
    return bytes([0 if ver == 0 else 0x50 + ver]) + bytes([len(prog)]) + prog


def script_multisig(m, pubs):
    return bytes([0x50 + m]) + b"".join(push(p) for p in pubs) + bytes([0x50 + len(pubs)]) + b"\xae"


def addr_p2pkh(h, net):
    return b58check(bytes([P2PKH_VER[net]]) + h)


def addr_p2sh(h, net):
    return b58check(bytes([P2SH_VER[net]]) + h)


def address_to_spk(addr):
    """Base58Check or segwit address string -> scriptPubKey (raises ValueError)."""
    try:
        raw = b58check_decode(addr)
        if len(raw) == 21:
            if raw[0] in (0x00, 0x6F):
                return spk_p2pkh(raw[1:])
            if raw[0] in (0x05, 0xC4):
                return spk_p2sh(raw[1:])
        raise ValueError("unknown base58 version")
    except (ValueError, IndexError):
        pass
    hrp, ver, prog = segwit_decode(addr)
    if hrp not in ("bc", "tb", "bcrt"):
        raise ValueError("hrp")
    return spk_witness(ver, prog)


def wif(key32, version, suffix=b""):
    return b58check(bytes([version]) + key32 + suffix)


def selftest():
    # BIP173 / BIP350 vectors
    assert segwit_encode("bc", 0, bytes.fromhex("751e76e8199196d454941c45d1b3a323f1433bd6")) == "bc1qw508d6qejxtdg4y5r3zarvary0c5xw7kv8f3t4"
    assert segwit_decode("BC1QW508D6QEJXTDG4Y5R3ZARVARY0C5XW7KV8F3T4")[2].hex() == "751e76e8199196d454941c45d1b3a323f1433bd6"
    assert (
        segwit_encode("tb", 0, bytes.fromhex("1863143c14c5166804bd19203356da136c985678cd4d27a1b8c6329604903262"))
        == "tb1qrp33g0q5c5txsp9arysrx4k6zdkfs4nce4xj0gdcccefvpysxf3q0sl5k7"
    )
    assert (
        segwit_encode("bc", 1, bytes.fromhex("79be667ef9dcbbac55a06295ce870b07029bfcdb2dce28d959f2815b16f81798"))
        == "bc1p0xlxvlhemja6c4dqv22uapctqupfhlxm9h8z3k2e72q4k9hcz7vqzk5jj0"
    )
    for bad in ("bc1qw508d6qejxtdg4y5r3zarvary0c5xw7kv8f3t5", "bc1p0xlxvlhemja6c4dqv22uapctqupfhlxm9h8z3k2e72q4k9hcz7vqh2y7hd"):
        try:
            segwit_decode(bad)
            return False
        except ValueError:
            pass
    # Base58Check: the genesis coinbase address and a well-known P2SH address
    pk = bytes.fromhex(
        "04678afdb0fe5548271967f1a67130b7105cd6a828e03909a67962e0ea1f61deb649f6bc3f4cef38c4f35504e51ec112de5c384df7ba0b8d578a4c702b6bf11d5f"
    )
    assert addr_p2pkh(hash160(pk), "mainnet") == "1A1zP1eP5QGefi2DMPTfTL5SLmv7DivfNa"
    assert b58check_decode("1A1zP1eP5QGefi2DMPTfTL5SLmv7DivfNa") == b"\x00" + hash160(pk)
    assert address_to_spk("1A1zP1eP5QGefi2DMPTfTL5SLmv7DivfNa") == spk_p2pkh(hash160(pk))
    assert address_to_spk("3P14159f73E4gFr7JterCCQh9QjiTjiZrG").hex() == "a914e9c3dd0c07aac76179ebc76a6c78d4d67c6c160a87"
    assert address_to_spk("bc1qw508d6qejxtdg4y5r3zarvary0c5xw7kv8f3t4").hex() == "0014751e76e8199196d454941c45d1b3a323f1433bd6"
    # WIF: the classic example key
    assert wif(bytes.fromhex("0c28fca386c7a227600b2fe50b7cae11ec86d3bf1fbe471be89827e19d72aa1d"), 0x80) == "5HueCGU8rMjxEXxiPuD5BDku4MkFqeZyd4dZ1jvhTVqvbTLvyTJ"
    assert push(b"a" * 75)[0] == 75 and push(b"a" * 76)[:2] == b"\x4c\x4c"
    return True
