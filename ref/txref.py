"""
Reference transaction parser, signature hashes (legacy and BIP143) and a
template-level input validator.  Shares no code with bits.

Validator scope: exactly the standard templates the C16 property lists -- P2PK, P2PKH,
bare m-of-n multisig, P2SH{multisig, P2WPKH, P2WSH{multisig}}, P2WPKH, P2WSH{multisig}.
It is not a general script interpreter.
"""
import hashlib

from . import ecdsa_der as DER
from . import secp256k1 as EC
from .addr import hash160, push, sha256, sha256d, spk_p2pkh


class TxError(Exception):
    pass


def _cs(b, pos):
    f = b[pos]
    if f < 253:
        return f, pos + 1
    if f == 253:
        return int.from_bytes(b[pos + 1 : pos + 3], "little"), pos + 3
    if f == 254:
        return int.from_bytes(b[pos + 1 : pos + 5], "little"), pos + 5
    return int.from_bytes(b[pos + 1 : pos + 9], "little"), pos + 9


def cs(n):
    if n < 253:
        return bytes([n])
    if n <= 0xFFFF:
        return b"\xfd" + n.to_bytes(2, "little")
    if n <= 0xFFFFFFFF:
        return b"\xfe" + n.to_bytes(4, "little")
    return b"\xff" + n.to_bytes(8, "little")


def parse_tx(raw):
    try:
        pos = 0
        version = int.from_bytes(raw[0:4], "little")
        pos = 4
        segwit = False
        if raw[pos] == 0 and raw[pos + 1] == 1:
            segwit = True
            pos += 2
        n_in, pos = _cs(raw, pos)
        vin = []
        for _ in range(n_in):
            txid = raw[pos : pos + 32]
            vout = int.from_bytes(raw[pos + 32 : pos + 36], "little")
            pos += 36
            ln, pos = _cs(raw, pos)
            ss = raw[pos : pos + ln]
            pos += ln
            seq = int.from_bytes(raw[pos : pos + 4], "little")
            pos += 4
            vin.append({"txid": bytes(txid), "vout": vout, "script_sig": bytes(ss), "sequence": seq})
        n_out, pos = _cs(raw, pos)
        vout_ = []
        for _ in range(n_out):
            val = int.from_bytes(raw[pos : pos + 8], "little")
            pos += 8
            ln, pos = _cs(raw, pos)
            spk = raw[pos : pos + ln]
            if len(spk) != ln:
                raise TxError("truncated output script")
            pos += ln
            vout_.append({"value": val, "spk": bytes(spk)})
        wits = None
        if segwit:
            wits = []
            for _ in range(n_in):
                k, pos = _cs(raw, pos)
                items = []
                for _ in range(k):
                    ln, pos = _cs(raw, pos)
                    it = raw[pos : pos + ln]
                    if len(it) != ln:
                        raise TxError("truncated witness item")
                    pos += ln
                    items.append(bytes(it))
                wits.append(items)
        if len(raw) - pos != 4:
            raise TxError(f"{len(raw) - pos} bytes where the 4-byte locktime should be")
        locktime = int.from_bytes(raw[pos : pos + 4], "little")
        return {"version": version, "vin": vin, "vout": vout_, "witnesses": wits, "locktime": locktime, "segwit": segwit}
    except IndexError:
        raise TxError("truncated transaction")


def _ser_out(o):
    return o["value"].to_bytes(8, "little") + cs(len(o["spk"])) + o["spk"]


def legacy_sighash(tx, idx, script_code, hashtype):
    base = hashtype & 0x1F
    acp = hashtype & 0x80
    if base == 3 and idx >= len(tx["vout"]):
        return (1).to_bytes(32, "little")
    ins = []
    for i, ti in enumerate(tx["vin"]):
        if acp and i != idx:
            continue
        script = script_code if i == idx else b""
        seq = ti["sequence"]
        if i != idx and base in (2, 3):
            seq = 0
        ins.append(ti["txid"] + ti["vout"].to_bytes(4, "little") + cs(len(script)) + script + seq.to_bytes(4, "little"))
    if base == 2:
        outs = []
    elif base == 3:
        outs = [(0xFFFFFFFFFFFFFFFF).to_bytes(8, "little") + b"\x00" for _ in range(idx)] + [_ser_out(tx["vout"][idx])]
    else:
        outs = [_ser_out(o) for o in tx["vout"]]
    pre = (
        tx["version"].to_bytes(4, "little")
        + cs(len(ins))
        + b"".join(ins)
        + cs(len(outs))
        + b"".join(outs)
        + tx["locktime"].to_bytes(4, "little")
        + hashtype.to_bytes(4, "little")
    )
    return sha256d(pre)


def bip143_sighash(tx, idx, script_code, amount, hashtype):
    base = hashtype & 0x1F
    acp = hashtype & 0x80
    zero = b"\x00" * 32
    hp = zero if acp else sha256d(b"".join(t["txid"] + t["vout"].to_bytes(4, "little") for t in tx["vin"]))
    hs = zero if (acp or base in (2, 3)) else sha256d(b"".join(t["sequence"].to_bytes(4, "little") for t in tx["vin"]))
    if base not in (2, 3):
        ho = sha256d(b"".join(_ser_out(o) for o in tx["vout"]))
    elif base == 3 and idx < len(tx["vout"]):
        ho = sha256d(_ser_out(tx["vout"][idx]))
    else:
        ho = zero
    t = tx["vin"][idx]
    pre = (
        tx["version"].to_bytes(4, "little")
        + hp
        + hs
        + t["txid"]
        + t["vout"].to_bytes(4, "little")
        + cs(len(script_code))
        + script_code
        + amount.to_bytes(8, "little")
        + t["sequence"].to_bytes(4, "little")
        + ho
        + tx["locktime"].to_bytes(4, "little")
        + hashtype.to_bytes(4, "little")
    )
    return sha256d(pre)


def pushes(script):
    """Decode a push-only script into its data items (OP_0 -> b''); None if not push-only."""
    out = []
    pos = 0
    n = len(script)
    while pos < n:
        op = script[pos]
        pos += 1
        if op == 0:
            out.append(b"")
        elif op < 0x4C:
            out.append(script[pos : pos + op])
            if len(out[-1]) != op:
                return None
            pos += op
        elif op in (0x4C, 0x4D, 0x4E):
            w = {0x4C: 1, 0x4D: 2, 0x4E: 4}[op]
            ln = int.from_bytes(script[pos : pos + w], "little")
            pos += w
            out.append(script[pos : pos + ln])
            if len(out[-1]) != ln:
                return None
            pos += ln
        elif 0x51 <= op <= 0x60:
            out.append(bytes([op - 0x50]))
        else:
            return None
    return out


def parse_multisig(script):
    """m <pub>... n OP_CHECKMULTISIG -> (m, [pubs]) or None"""
    if len(script) < 4 or script[-1] != 0xAE:
        return None
    m = script[0] - 0x50
    n = script[-2] - 0x50
    if not (1 <= m <= n <= 16):
        return None
    pos = 1
    pubs = []
    while pos < len(script) - 2:
        ln = script[pos]
        if ln not in (33, 65):
            return None
        pubs.append(script[pos + 1 : pos + 1 + ln])
        pos += 1 + ln
    if pos != len(script) - 2 or len(pubs) != n:
        return None
    return m, pubs


class Reject(Exception):
    pass


def _checksig(sig, pub, digest_fn, want_flag):
    if len(sig) < 9:
        raise Reject("signature too short")
    if not DER.is_strict_der(sig):
        raise Reject("signature is not strict DER")
    ht = sig[-1]
    if want_flag is not None and ht != want_flag:
        raise Reject(f"sighash byte {ht:#x} != requested {want_flag:#x}")
    if (ht & 0x1F) not in (1, 2, 3) or (ht & ~0x83):
        raise Reject(f"undefined hashtype {ht:#x}")
    P = EC.decode_pub(pub)
    if P is None:
        raise Reject("public key does not decode")
    r, s = DER.parse(sig[:-1])
    if s > EC.N // 2:
        raise Reject("high S")
    z = int.from_bytes(digest_fn(ht), "big")
    return EC.ecdsa_verify(P, z % EC.N, r, s)


def _checkmultisig(items, m, pubs, digest_fn, want_flag):
    if len(items) != m + 1:
        raise Reject(f"multisig needs a dummy and {m} signatures, got {len(items)} items")
    if items[0] != b"":
        raise Reject("multisig dummy element is not empty (NULLDUMMY)")
    sigs = items[1:]
    ip = 0
    for sg in sigs:
        ok = False
        while ip < len(pubs):
            pub = pubs[ip]
            ip += 1
            if _checksig(sg, pub, digest_fn, want_flag):
                ok = True
                break
        if not ok:
            raise Reject("multisig signature does not match the remaining public keys in order")
    return True


def verify_input(tx, idx, spk, amount, want_flag=None):
    """Raises Reject(reason) unless input idx satisfies `spk` (value `amount`)."""
    ti = tx["vin"][idx]
    ss = ti["script_sig"]
    wit = tx["witnesses"][idx] if tx["witnesses"] is not None else []
    items = pushes(ss)
    if items is None:
        raise Reject("scriptSig is not push-only")

    def legacy(code):
        return lambda ht: legacy_sighash(tx, idx, code, ht)

    def v0(code):
        return lambda ht: bip143_sighash(tx, idx, code, amount, ht)

    def witness_program(ver, prog, wit):
        if ver != 0:
            raise Reject("only witness v0 is validated")
        if len(prog) == 20:
            if len(wit) != 2:
                raise Reject(f"P2WPKH witness must have 2 items, has {len(wit)}")
            if hash160(wit[1]) != prog:
                raise Reject("P2WPKH public key hash mismatch")
            if len(wit[1]) != 33:
                raise Reject("P2WPKH requires a compressed key")
            if not _checksig(wit[0], wit[1], v0(spk_p2pkh(prog)), want_flag):
                raise Reject("P2WPKH signature invalid")
            return
        if len(prog) == 32:
            if not wit:
                raise Reject("P2WSH witness empty")
            ws = wit[-1]
            if sha256(ws) != prog:
                raise Reject("P2WSH witness script hash mismatch")
            ms = parse_multisig(ws)
            if ms is None:
                raise Reject("witness script is not a multisig template")
            _checkmultisig(wit[:-1], ms[0], ms[1], v0(ws), want_flag)
            return
        raise Reject("bad v0 program length")

    # native witness programs
    if len(spk) in (22, 34) and spk[0] == 0 and spk[1] == len(spk) - 2:
        if ss:
            raise Reject("native segwit input with non-empty scriptSig")
        return witness_program(0, spk[2:], wit)
    # P2SH
    if len(spk) == 23 and spk[0] == 0xA9 and spk[1] == 0x14 and spk[22] == 0x87:
        if not items:
            raise Reject("P2SH scriptSig empty")
        redeem = items[-1]
        if hash160(redeem) != spk[2:22]:
            raise Reject("P2SH redeem script hash mismatch")
        if len(redeem) in (22, 34) and redeem[0] == 0 and redeem[1] == len(redeem) - 2:
            if len(items) != 1:
                raise Reject("P2SH-segwit scriptSig must be exactly the redeem script push")
            return witness_program(0, redeem[2:], wit)
        if wit:
            raise Reject("witness data on a non-witness input")
        ms = parse_multisig(redeem)
        if ms is None:
            raise Reject("redeem script is not a multisig template")
        return _checkmultisig(items[:-1], ms[0], ms[1], legacy(redeem), want_flag)
    if wit:
        raise Reject("witness data on a non-witness input")
    # P2PKH
    if len(spk) == 25 and spk[:3] == b"\x76\xa9\x14" and spk[23:] == b"\x88\xac":
        if len(items) != 2:
            raise Reject(f"P2PKH scriptSig must be <sig> <pubkey>, has {len(items)} items")
        if hash160(items[1]) != spk[3:23]:
            raise Reject("P2PKH public key hash mismatch")
        if not _checksig(items[0], items[1], legacy(spk), want_flag):
            raise Reject("P2PKH signature invalid")
        return
    # P2PK
    if len(spk) in (35, 67) and spk[0] == len(spk) - 2 and spk[-1] == 0xAC:
        if len(items) != 1:
            raise Reject(f"P2PK scriptSig must be <sig>, has {len(items)} items")
        if not _checksig(items[0], spk[1:-1], legacy(spk), want_flag):
            raise Reject("P2PK signature invalid")
        return
    ms = parse_multisig(spk)
    if ms is not None:
        return _checkmultisig(items, ms[0], ms[1], legacy(spk), want_flag)
    raise Reject("scriptPubKey is not one of the validated templates")


def selftest():
    # BIP143 native P2WPKH example: sighash of input 1 and the published signed tx
    unsigned = bytes.fromhex(
        "0100000002fff7f7881a8099afa6940d42d1e7f6362bec38171ea3edf433541db4e4ad969f0000000000eeffffffef51e1b804cc89d182d279655c3aa89e815b1b309fe287d9b2b55d57b90ec68a0100000000ffffffff02202cb206000000001976a9148280b37df378db99f66f85c95a783a76ac7a6d5988ac9093510d000000001976a9143bde42dbee7e4dbe6a21b2d50ce2f0167faa815988ac11000000"
    )
    tx = parse_tx(unsigned)
    assert tx["version"] == 1 and len(tx["vin"]) == 2 and tx["locktime"] == 0x11
    pkh = bytes.fromhex("1d0f172a0ecb48aee1be1f2687d2963ae33f71a1")
    assert (
        bip143_sighash(tx, 1, spk_p2pkh(pkh), 600000000, 1).hex() == "c37af31116d1b27caf68aae9e3ac82f1477929014d5b917657d0eb49478cb670"
    )
    signed = bytes.fromhex(
        "01000000000102fff7f7881a8099afa6940d42d1e7f6362bec38171ea3edf433541db4e4ad969f00000000494830450221008b9d1dc26ba6a9cb62127b02742fa9d754cd3bebf337f7a55d114c8e5cdd30be022040529b194ba3f9281a99f2b1c0a19c0489bc22ede944ccf4ecbab4cc618ef3ed01eeffffffef51e1b804cc89d182d279655c3aa89e815b1b309fe287d9b2b55d57b90ec68a0100000000ffffffff02202cb206000000001976a9148280b37df378db99f66f85c95a783a76ac7a6d5988ac9093510d000000001976a9143bde42dbee7e4dbe6a21b2d50ce2f0167faa815988ac000247304402203609e17b84f6a7d30c80bfa610b5b4542f32a8a0d5447a12fb1366d7f01cc44a0220573a954c4518331561406f90300e8f3358f51928d43c212a8caed02de67eebee0121025476c2e83188368da1ff3e292e7acafcdb3566bb0ad253f62fc70f07aeee635711000000"
    )
    stx = parse_tx(signed)
    assert stx["segwit"] and stx["witnesses"][0] == [] and len(stx["witnesses"][1]) == 2
    # input 0 is P2PK (legacy), input 1 is P2WPKH
    spk0 = bytes.fromhex("2103c9f4836b9a4f77fc0d81f7bcb01b7f1b35916864b9476c241ce9fc198bd25432ac")
    verify_input(stx, 0, spk0, 625000000, 1)
    verify_input(stx, 1, b"\x00\x14" + pkh, 600000000, 1)
    # tampering must be rejected
    bad = parse_tx(signed)
    bad["vout"][0]["value"] += 1
    for i, (spk, amt) in enumerate(((spk0, 625000000), (b"\x00\x14" + pkh, 600000000))):
        try:
            verify_input(bad, i, spk, amt, 1)
            return False
        except Reject:
            pass
    try:
        verify_input(stx, 1, b"\x00\x14" + pkh, 600000001, 1)
        return False
    except Reject:
        pass
    # BIP143 P2SH-P2WSH 6-of-6 example: hashtype coverage (ALL, NONE, SINGLE, ALL|ACP, NONE|ACP, SINGLE|ACP)
    ms = bytes.fromhex(
        "56210307b8ae49ac90a048e9b53357a2354b3334e9c8bee813ecb98e99a7e07e8c3ba32103b28f0c28bfab54554ae8c658ac5c3e0ce6e79ad336331f78c428dd43eea8449b21034b8113d703413d57761b8b9781957b8c0ac1dfe69f492580ca4195f50376ba4a21033400f6afecb833092a9a21cfdf1ed1376e58c5d1f47de74683123987e967a8f42103a6d48b1131e94ba04d9737d61acdaa1322008af9602b3b14862c07a1789aac162102d8b661b0b3302ee2f162b09e07a55ad5dfbe673a9f01d9f0c19617681024306b56ae"
    )
    u2 = parse_tx(
        bytes.fromhex(
            "010000000136641869ca081e70f394c6948e8af409e18b619df2ed74aa106c1ca29787b96e0100000000ffffffff0200e9a435000000001976a914389ffce9cd9ae88dcc0631e88a821ffdbe9bfe2688acc0832f05000000001976a9147480a33f950689af511e6e84c138dbbd3c3ee41588ac00000000"
        )
    )
    want = {
        1: "185c0be5263dce5b4bb50a047973c1b6272bfbd0103a89444597dc40b248ee7c",
        2: "e9733bc60ea13c95c6527066bb975a2ff29a925e80aa14c213f686cbae5d2f36",
        3: "1e1f1c303dc025bd664acb72e583e933fae4cff9148bf78c157d1e8f78530aea",
        0x81: "2a67f03e63a6a422125878b40b82da593be8d4efaafe88ee528af6e5a9955c6e",
        0x82: "781ba15f3779d5542ce8ecb5c18716733a5ee42a6f51488ec96154934e2c890a",
        0x83: "511e8e52ed574121fc1b654970395502128263f62662e076dc6baf05c2e6a99b",
    }
    for ht in sorted(want):
        assert bip143_sighash(u2, 0, ms, 987654321, ht).hex() == want[ht], ht
    # legacy sighash: the first P2PKH spend ever relayed by a well known tutorial (tx c99c49da... spending 0437cd7f...? not available offline);
    # instead pin it through the BIP143 example's P2PK input above (verified signature over legacy_sighash).
    assert pushes(b"\x00\x01\xaa\x4c\x01\xbb\x51") == [b"", b"\xaa", b"\xbb", b"\x01"]
    assert parse_multisig(ms)[0] == 6 and len(parse_multisig(ms)[1]) == 6
    return True
