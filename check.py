import argparse
import os
import sys

HERE = os.path.dirname(os.path.abspath(__file__))
sys.path.insert(0, HERE)


def main():
    ap = argparse.ArgumentParser()
    ap.add_argument("property", nargs="?")
    ap.add_argument("--tier", default=os.environ.get("VERIF_TIER", "quick"), choices=["quick", "thorough"])
    ap.add_argument("--replay")
    ap.add_argument("--selftest", choices=["determinism", "sensitivity", "refs"])
    ap.add_argument("--runs", type=int)
    ap.add_argument("--workers", type=int)
    ap.add_argument("--seed", type=int, default=int(os.environ.get("VERIF_SEED", "0") or 0))
    ap.add_argument("--only")
    ap.add_argument("--trace", action="store_true", help="with --replay: print the recorded event log of the replayed run")
    a = ap.parse_args()
    os.chdir(HERE)
    from sim import runner

    if a.selftest:
        import importlib

        m = importlib.import_module(f"selftest.{a.selftest}")
        return m.main(a)
    if not a.property:
        ap.error("property required")
    if a.replay:
        if a.trace:
            os.environ["VERIF_TRACE"] = "1"
        return runner.replay(a.property, a.replay)
    return runner.run_check(a.property, a.tier, a.seed, workers=a.workers, runs=a.runs)


if __name__ == "__main__":
    try:
        rc = main()
    except SystemExit:
        raise
    except BaseException as e:  # never let a crash look like a verdict
        import traceback

        traceback.print_exc()
        print(f"HARNESS-ERROR {type(e).__name__}: {e}")
        rc = 2
    sys.stdout.flush()
    sys.exit(rc)
