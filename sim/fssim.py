"""
Simulated disk with process-crash semantics.

Durable state = what has reached RawIOBase.write (handed to the OS).  Bytes still in
a Python-level buffer (the *real* io.BufferedWriter / TextIOWrapper stacked on
SimRaw) die with the process.  The seam is the set of os primitives and open():
while a SimFS is mounted, calls whose path lies under its virtual root are served
from memory, everything else goes to the real implementation.  The virtual root
does not exist on the real disk, so an access that bypasses the seam fails loudly.

Every primitive call is an I/O call with an index; the fault plan maps indices to
faults (crash-before, crash-after, torn write, short write, EIO, ENOSPC, ...).
"""
import builtins
import errno
import io
import os
import stat as _stat
import weakref

from .core import HarnessError, HarnessUnsupported


class SimCrash(BaseException):
    """The simulated process died inside an I/O call."""


_REAL = {}
_MOUNTED = None

MUTATING = ("mkdir", "open-create", "open-trunc", "write", "close", "remove", "rename", "truncate")


class SimRaw(io.RawIOBase):
    def __init__(self, fs, path, mode):
        super().__init__()
        self.fs = fs
        self.path = path
        self.epoch = fs.epoch
        self._mode = mode
        self._append = "a" in mode
        self._readable = "r" in mode or "+" in mode
        self._writable = any(c in mode for c in "wax+")
        self._pos = len(fs.files[path]) if self._append else 0
        self.name = path
        self.mode = mode

    def readable(self):
        return self._readable

    def writable(self):
        return self._writable

    def seekable(self):
        return True

    def fileno(self):
        # a fake descriptor, so that os.fsync(f.fileno()) reaches the simulated disk
        if getattr(self, "_fd", None) is None:
            self._fd = self.fs.next_fd
            self.fs.next_fd += 1
            self.fs.fds[self._fd] = self
        return self._fd

    def isatty(self):
        return False

    def _alive(self):
        return self.epoch == self.fs.epoch and not self.fs.crashed

    def readinto(self, b):
        if not self._alive():
            return 0
        self.fs.io_call("read", self.path)
        data = self.fs.files[self.path][self._pos : self._pos + len(b)]
        b[: len(data)] = data
        self._pos += len(data)
        return len(data)

    def write(self, b):
        b = bytes(b)
        if not self._alive():
            return len(b)  # the process is dead: whatever a stale object flushes is lost
        return self.fs.raw_write(self, b)

    def seek(self, off, whence=0):
        n = len(self.fs.files.get(self.path, b""))
        if whence == 0:
            self._pos = off
        elif whence == 1:
            self._pos += off
        else:
            self._pos = n + off
        return self._pos

    def tell(self):
        return self._pos

    def truncate(self, size=None):
        if not self._alive():
            return 0
        size = self._pos if size is None else size
        self.fs.io_call("truncate", self.path, True)
        data = self.fs.files[self.path]
        if size < len(data):
            del data[size:]
        else:
            data += bytes(size - len(data))  # ftruncate() extends with zero bytes
        return size

    def close(self):
        if self.closed:
            return
        try:
            if self._alive():
                self.fs.raw_close(self)
        finally:
            fd = getattr(self, "_fd", None)
            if fd is not None and self.fs.fds.get(fd) is self:
                del self.fs.fds[fd]
            super().close()


class SimFS:
    def __init__(self, root, log, faults, rng, buffer_size=8192, capacity=None):
        self.root = root
        self.log = log
        self.faults = faults
        self.rng = rng  # listdir permutation, short-write sizes
        self.buffer_size = buffer_size
        self.capacity = capacity
        self.files = {}
        self.dirs = set()
        self.calls = 0
        self.plan = {}  # call index -> (kind, arg)
        self.crashed = False
        self.epoch = 0
        self.call_log = []  # (index, name, path, mutating?)
        self._raws = weakref.WeakSet()
        self.fds = {}  # fake file descriptor -> SimRaw (os.open / os.write / os.close / os.fsync)
        self.next_fd = 1 << 20

    def live_raws(self):
        return [r for r in list(self._raws) if r.epoch == self.epoch]

    # ------------------------------------------------------------ bookkeeping
    def under(self, path):
        if isinstance(path, int):
            return False
        try:
            p = os.fspath(path)
        except TypeError:
            return False
        if isinstance(p, bytes):
            p = p.decode("utf8", "surrogateescape")
        return p == self.root or p.startswith(self.root + "/")

    def norm(self, path):
        p = os.fspath(path)
        if isinstance(p, bytes):
            p = p.decode("utf8", "surrogateescape")
        parts = []
        for seg in p.split("/"):
            if seg in ("", "."):
                continue
            if seg == "..":
                if parts:
                    parts.pop()
                continue
            parts.append(seg)
        return "/" + "/".join(parts)

    def used(self):
        return sum(len(v) for v in self.files.values())

    def io_call(self, name, path, mutating=False):
        """Registers one I/O call; applies crash-before; returns the fault (if any)
        the caller has to apply itself."""
        idx = self.calls
        self.calls += 1
        self.call_log.append((idx, name, path))
        self.log.add(idx, "fs", name, path)
        f = self.plan.get(idx)
        if f is None:
            return None
        kind = f[0]
        if kind == "crash-before":
            self.crash(f"crash-before {name}#{idx}")
        return f

    def crash(self, why):
        self.crashed = True
        self.faults.hit(why.split()[0])
        self.log.add(self.calls, "fs", "CRASH", why)
        raise SimCrash(why)

    def restart(self):
        """Only durable state survives; stale file objects are dead."""
        self.crashed = False
        self.epoch += 1
        self.log.add(self.calls, "fs", "restart", "")

    def after(self, f, name, idx_desc=""):
        if f is not None and f[0] == "crash-after":
            self.crash(f"crash-after {name}")

    # ------------------------------------------------------------ primitives
    def stat(self, path):
        p = self.norm(path)
        self.io_call("stat", p)
        if p in self.dirs:
            return os.stat_result((_stat.S_IFDIR | 0o755, 0, 0, 1, 0, 0, 0, 0, 0, 0))
        if p in self.files:
            return os.stat_result((_stat.S_IFREG | 0o644, 0, 0, 1, 0, 0, len(self.files[p]), 0, 0, 0))
        raise FileNotFoundError(errno.ENOENT, "No such file or directory", p)

    def mkdir(self, path, mode=0o777):
        p = self.norm(path)
        f = self.io_call("mkdir", p, True)
        if f and f[0] == "eio":
            self.faults.hit("eio-mkdir")
            raise OSError(errno.EIO, "Input/output error", p)
        if p in self.dirs or p in self.files:
            raise FileExistsError(errno.EEXIST, "File exists", p)
        parent = p.rsplit("/", 1)[0] or "/"
        if parent != "/" and parent not in self.dirs and self.under(parent):
            raise FileNotFoundError(errno.ENOENT, "No such file or directory", p)
        self.dirs.add(p)
        self.after(f, "mkdir")

    def listdir(self, path="."):
        p = self.norm(path)
        self.io_call("listdir", p)
        if p not in self.dirs:
            if p in self.files:
                raise NotADirectoryError(errno.ENOTDIR, "Not a directory", p)
            raise FileNotFoundError(errno.ENOENT, "No such file or directory", p)
        names = sorted(
            {x[len(p) + 1 :].split("/", 1)[0] for x in list(self.files) + list(self.dirs) if x.startswith(p + "/")}
        )
        self.rng.shuffle(names)  # directory order is unspecified
        return names

    def remove(self, path):
        p = self.norm(path)
        f = self.io_call("remove", p, True)
        if p not in self.files:
            raise FileNotFoundError(errno.ENOENT, "No such file or directory", p)
        del self.files[p]
        self.after(f, "remove")

    def rename(self, src, dst):
        s, d = self.norm(src), self.norm(dst)
        f = self.io_call("rename", s + "->" + d, True)
        if s not in self.files:
            raise FileNotFoundError(errno.ENOENT, "No such file or directory", s)
        self.files[d] = self.files.pop(s)
        self.after(f, "rename")

    def open(self, path, mode="r", buffering=-1, encoding=None, errors=None, newline=None, closefd=True, opener=None):
        p = self.norm(path)
        if opener is not None:
            raise HarnessUnsupported("open(opener=...) on a simulated path")
        m = mode.replace("t", "")
        binary = "b" in m
        core = m.replace("b", "")
        exists = p in self.files
        creating = not exists and any(c in core for c in "wax")
        name = "open-create" if creating else ("open-trunc" if "w" in core and exists else "open")
        f = self.io_call(name, p, creating or "w" in core)
        if f and f[0] == "eio":
            self.faults.hit("eio-open")
            raise OSError(errno.EIO, "Input/output error", p)
        if p in self.dirs:
            raise IsADirectoryError(errno.EISDIR, "Is a directory", p)
        parent = p.rsplit("/", 1)[0]
        if parent not in self.dirs:
            raise FileNotFoundError(errno.ENOENT, "No such file or directory", p)
        if "x" in core and exists:
            raise FileExistsError(errno.EEXIST, "File exists", p)
        if "r" in core and not exists:
            raise FileNotFoundError(errno.ENOENT, "No such file or directory", p)
        if creating:
            self.files[p] = bytearray()
        elif "w" in core:
            del self.files[p][:]
        self.after(f, name)
        raw = SimRaw(self, p, core)
        self._raws.add(raw)
        if buffering == 0:
            if not binary:
                raise ValueError("can't have unbuffered text I/O")
            return raw
        bs = self.buffer_size if buffering in (-1, 1) else buffering
        if "+" in core:
            buf = io.BufferedRandom(raw, bs)
        elif any(c in core for c in "wax"):
            buf = io.BufferedWriter(raw, bs)
        else:
            buf = io.BufferedReader(raw, bs)
        if binary:
            return buf
        return io.TextIOWrapper(buf, encoding or "utf-8", errors, newline, line_buffering=(buffering == 1))

    def raw_write(self, raw, b):
        f = self.io_call("write", raw.path, True)
        data = self.files[raw.path]
        n = len(b)
        if f:
            kind = f[0]
            if kind == "eio":
                self.faults.hit("eio-write")
                raise OSError(errno.EIO, "Input/output error", raw.path)
            if kind == "torn":
                j = max(0, min(n, f[1] if f[1] >= 0 else n + f[1]))
                self._apply(raw, b[:j])
                self.faults.hit("torn-write")
                self.crash(f"torn-write {j}/{n}")
            if kind == "short" and n > 1:
                n = max(1, min(n - 1, f[1]))
                self.faults.hit("short-write")
        if self.capacity is not None:
            room = self.capacity - self.used()
            if room <= 0:
                self.faults.hit("enospc")
                raise OSError(errno.ENOSPC, "No space left on device", raw.path)
            if n > room:
                n = room
                self.faults.hit("enospc-partial")
        self._apply(raw, b[:n])
        self.after(f, "write")
        return n

    def _apply(self, raw, b):
        data = self.files[raw.path]
        if raw._append:
            data += b
            raw._pos = len(data)
        else:
            if raw._pos > len(data):
                data += bytes(raw._pos - len(data))
            data[raw._pos : raw._pos + len(b)] = b
            raw._pos += len(b)

    def raw_close(self, raw):
        f = self.io_call("close", raw.path, True)
        if f and f[0] == "eio":
            self.faults.hit("eio-close")
            raise OSError(errno.EIO, "Input/output error", raw.path)
        self.after(f, "close")

    # ------------------------------------------------------------ file descriptors
    def os_open(self, path, flags, mode=0o777, **k):
        acc = flags & (os.O_RDONLY | os.O_WRONLY | os.O_RDWR)
        m = "r" if acc == os.O_RDONLY else ("r+" if acc == os.O_RDWR else "w")
        p = self.norm(path)
        if flags & os.O_APPEND:
            m = "a" if acc != os.O_RDWR else "a+"
        elif acc != os.O_RDONLY and not (flags & os.O_TRUNC):
            m = "r+" if p in self.files else ("x" if flags & os.O_CREAT else "r+")
            if p not in self.files and not (flags & os.O_CREAT):
                raise FileNotFoundError(errno.ENOENT, "No such file or directory", p)
        if flags & os.O_EXCL and flags & os.O_CREAT:
            m = "x"
        elif p not in self.files and not (flags & os.O_CREAT):
            raise FileNotFoundError(errno.ENOENT, "No such file or directory", p)
        raw = self.open(p, m + "b", buffering=0)
        if "x" in m:
            raw._writable = True
        if flags & os.O_APPEND:
            raw._pos = 0  # O_APPEND moves the offset at each write, not at open()
        fd = self.next_fd
        self.next_fd += 1
        self.fds[fd] = raw
        raw._fd = fd
        return fd

    def open_fd(self, fd, mode="r", buffering=-1, encoding=None, errors=None, newline=None, closefd=True, opener=None):
        """open(fd, mode) / os.fdopen(fd, mode) on a simulated descriptor: a new buffered
        object over the descriptor's raw file.  As with a real descriptor nothing is
        truncated, "a" seeks to the end at once, other modes leave the offset alone."""
        raw = self.fd_raw(fd)
        m = mode.replace("t", "")
        binary = "b" in m
        core = m.replace("b", "")
        if any(c in core for c in "wax+") and not raw._writable:
            raise OSError(errno.EBADF, "Bad file descriptor")
        if "a" in core:
            raw._pos = len(self.files.get(raw.path, b""))
        if not closefd:
            raise HarnessUnsupported("open(fd, closefd=False) on a simulated descriptor")
        self.fds.pop(fd, None)  # the file object owns the descriptor now
        raw._fd = fd
        self.fds[fd] = raw
        if buffering == 0:
            if not binary:
                raise ValueError("can't have unbuffered text I/O")
            return raw
        bs = self.buffer_size if buffering in (-1, 1) else buffering
        if "+" in core:
            buf = io.BufferedRandom(raw, bs)
        elif any(c in core for c in "wax"):
            buf = io.BufferedWriter(raw, bs)
        else:
            buf = io.BufferedReader(raw, bs)
        if binary:
            return buf
        return io.TextIOWrapper(buf, encoding or "utf-8", errors, newline, line_buffering=(buffering == 1))

    def fd_raw(self, fd):
        raw = self.fds.get(fd)
        if raw is None:
            raise OSError(errno.EBADF, "Bad file descriptor")
        return raw

    def os_close(self, fd):
        raw = self.fd_raw(fd)
        del self.fds[fd]
        raw.close()

    def os_fsync(self, fd):
        raw = self.fd_raw(fd)
        f = self.io_call("fsync", raw.path)
        if f and f[0] == "eio":
            self.faults.hit("eio-fsync")
            raise OSError(errno.EIO, "Input/output error", raw.path)
        self.after(f, "fsync")

    def scandir(self, path="."):
        p = self.norm(path)
        names = self.listdir(p)
        fs = self

        class Entry:
            def __init__(self, name):
                self.name = name
                self.path = p + "/" + name

            def is_dir(self, follow_symlinks=True):
                return self.path in fs.dirs

            def is_file(self, follow_symlinks=True):
                return self.path in fs.files

            def is_symlink(self):
                return False

            def stat(self, follow_symlinks=True):
                return fs.stat(self.path)

            def __fspath__(self):
                return self.path

        class It(list):
            def __enter__(self):
                return self

            def __exit__(self, *a):
                return False

            def close(self):
                pass

        return It(Entry(n) for n in names)

    # ------------------------------------------------------------ mounting
    def mount(self):
        global _MOUNTED
        if _MOUNTED is not None:
            raise HarnessError("a SimFS is already mounted")
        _MOUNTED = self
        _install_dispatchers()

    def unmount(self):
        global _MOUNTED
        _MOUNTED = None


def _install_dispatchers():
    if _REAL:
        return

    def wrap_os(name, handler, arg_index=0):
        real = getattr(os, name)
        _REAL["os." + name] = real

        def disp(*a, **k):
            fs = _MOUNTED
            if fs is not None and a and fs.under(a[arg_index]):
                if k.get("dir_fd") is not None:
                    raise HarnessUnsupported(f"os.{name}(dir_fd=...) on a simulated path")
                return handler(fs, *a, **k)
            return real(*a, **k)

        disp.__name__ = name
        setattr(os, name, disp)

    wrap_os("stat", lambda fs, p, **k: fs.stat(p))
    wrap_os("lstat", lambda fs, p, **k: fs.stat(p))
    wrap_os("mkdir", lambda fs, p, mode=0o777, **k: fs.mkdir(p, mode))
    wrap_os("listdir", lambda fs, p=".": fs.listdir(p))
    wrap_os("remove", lambda fs, p, **k: fs.remove(p))
    wrap_os("unlink", lambda fs, p, **k: fs.remove(p))
    wrap_os("rename", lambda fs, s, d, **k: fs.rename(s, d))
    wrap_os("replace", lambda fs, s, d, **k: fs.rename(s, d))

    def unsupported(name):
        real = getattr(os, name)
        _REAL["os." + name] = real

        def disp(*a, **k):
            fs = _MOUNTED
            if fs is not None and a and fs.under(a[0]):
                raise HarnessUnsupported(f"os.{name} on a simulated path")
            return real(*a, **k)

        setattr(os, name, disp)

    wrap_os("open", lambda fs, p, flags, mode=0o777, **k: fs.os_open(p, flags, mode))
    wrap_os("scandir", lambda fs, p=".": fs.scandir(p))
    wrap_os("access", lambda fs, p, mode, **k: fs.norm(p) in fs.files or fs.norm(p) in fs.dirs)

    def wrap_fd(name, handler):
        real = getattr(os, name)
        _REAL["os." + name] = real

        def disp(fd, *a, **k):
            fs = _MOUNTED
            if fs is not None and isinstance(fd, int) and fd in fs.fds:
                return handler(fs, fd, *a, **k)
            return real(fd, *a, **k)

        disp.__name__ = name
        setattr(os, name, disp)

    wrap_fd("write", lambda fs, fd, b: fs.fd_raw(fd).write(b))
    wrap_fd("read", lambda fs, fd, n: (lambda raw, buf: bytes(buf[: raw.readinto(buf)]))(fs.fd_raw(fd), bytearray(n)))
    wrap_fd("close", lambda fs, fd: fs.os_close(fd))
    wrap_fd("fsync", lambda fs, fd: fs.os_fsync(fd))
    wrap_fd("fdatasync", lambda fs, fd: fs.os_fsync(fd))
    wrap_fd("lseek", lambda fs, fd, pos, how: fs.fd_raw(fd).seek(pos, how))
    wrap_fd("ftruncate", lambda fs, fd, n: fs.fd_raw(fd).truncate(n))
    wrap_fd("fstat", lambda fs, fd: fs.stat(fs.fd_raw(fd).path))

    def _pwrite(fs, fd, data, offset):
        raw = fs.fd_raw(fd)
        keep = raw._pos
        raw._pos = offset  # (an O_APPEND descriptor appends regardless, as on Linux)
        try:
            return raw.write(data)
        finally:
            raw._pos = keep

    def _pread(fs, fd, n, offset):
        raw = fs.fd_raw(fd)
        keep = raw._pos
        raw._pos = offset
        try:
            buf = bytearray(n)
            return bytes(buf[: raw.readinto(buf)])
        finally:
            raw._pos = keep

    if hasattr(os, "pwrite"):
        wrap_fd("pwrite", _pwrite)
        wrap_fd("pread", _pread)
    if hasattr(os, "writev"):
        wrap_fd("writev", lambda fs, fd, bufs: fs.fd_raw(fd).write(b"".join(bytes(b) for b in bufs)))

    def unsupported_fd(name):
        real = getattr(os, name)
        _REAL["os." + name] = real

        def disp(fd, *a, **k):
            fs = _MOUNTED
            if fs is not None and isinstance(fd, int) and fd in fs.fds:
                raise HarnessUnsupported(f"os.{name} on a simulated descriptor")
            return real(fd, *a, **k)

        disp.__name__ = name
        setattr(os, name, disp)

    for n in ("readv", "sendfile", "posix_fallocate", "posix_fadvise", "fchmod", "fchown", "dup", "dup2", "lockf", "preadv", "pwritev", "set_inheritable", "get_inheritable", "set_blocking", "get_blocking", "fpathconf", "fstatvfs"):
        if hasattr(os, n):
            unsupported_fd(n)

    for n in ("rmdir", "chmod", "truncate", "utime", "link", "symlink", "readlink", "walk"):
        if hasattr(os, n):
            unsupported(n)

    real_open = builtins.open
    _REAL["open"] = real_open

    def open_disp(file, *a, **k):
        fs = _MOUNTED
        if fs is not None and isinstance(file, int) and not isinstance(file, bool) and file in fs.fds:
            return fs.open_fd(file, *a, **k)
        if fs is not None and not isinstance(file, int) and fs.under(file):
            return fs.open(file, *a, **k)
        return real_open(file, *a, **k)

    builtins.open = open_disp
    _REAL["io.open"] = io.open
    io.open = open_disp  # os.fdopen() and pathlib go through io.open
    io.open = open_disp


def real_open(*a, **k):
    return _REAL.get("open", builtins.open)(*a, **k)
