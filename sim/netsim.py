"""
Virtual-time network: simulated sockets, scripted peers, a clock shim.

The node-side endpoint is `SimSocket`.  A peer is a script: a byte stream cut into
segments, each delivered at a virtual time relative to the moment the node
connects.  The network (not the peer) decides the cuts, so frames are both split
and coalesced.
"""
import socket as _real_socket

from .core import HarnessError
from .sched import SimAbort


class SimHang(BaseException):
    """recv() was called far more often than any terminating reader would."""


class SimClock:
    """Stand-in for the `time` module as seen from the code under test."""

    def __init__(self, sched, epoch):
        self._sched = sched
        self._epoch = epoch
        self.offset = 0.0  # wall-clock steps (NTP, operator); monotonic() is unaffected
        self.reads = 0

    def time(self):
        self.reads += 1
        return self._epoch + self._sched.now + self.offset

    def time_ns(self):
        return int(self.time() * 1e9)

    def monotonic(self):
        return self._sched.now

    perf_counter = monotonic

    def sleep(self, d):
        s = self._sched
        if s.me() is None:
            raise HarnessError("sleep outside simulation")
        s.block(lambda: False, s.now + max(0.0, d), what="sleep")

    def __getattr__(self, name):
        import time as _t

        if name in ("strftime", "gmtime", "localtime", "struct_time", "mktime", "ctime", "asctime"):
            return getattr(_t, name)
        raise HarnessError(f"time.{name} is not simulated")


class SimSocket:
    def __init__(self, net):
        self.net = net
        self.sched = net.sched
        self.peer = None
        self.buf = bytearray()
        self.eof = False  # peer closed its sending side
        self.closed = False
        self.timeout = None
        self.sent = []  # (seq, vtime, tid, bytes)
        self.consumed = 0
        self.recv_calls = 0
        self.empty_reads = 0
        self.local_port = None
        self.recv_log = []  # chunk sizes returned, for the transition measure

    # -- connection -------------------------------------------------------
    def connect(self, addr):
        self.sched.yield_point("connect")
        self.net.connect(self, addr)

    def connect_ex(self, addr):
        self.connect(addr)
        return 0

    def setblocking(self, flag):
        self.timeout = None if flag else 0.0

    def settimeout(self, t):
        self.timeout = t

    def gettimeout(self):
        return self.timeout

    def setsockopt(self, *a):
        pass

    def getsockname(self):
        return ("127.0.0.1", self.local_port)

    def getpeername(self):
        return self.peer.addr

    def fileno(self):
        return -1

    # -- data -----------------------------------------------------------
    def recv(self, n, flags=0):
        s = self.sched
        s.yield_point("recv")
        if self.closed:
            raise OSError(9, "Bad file descriptor")
        self.recv_calls += 1
        cap = self.net.recv_cap(self)
        if cap is not None and self.recv_calls > cap:
            s.log.add(s.now, s.me(), "hang", self.recv_calls)
            raise SimHang(f"{self.recv_calls} recv calls")
        if n <= 0:
            return b""
        waitall = bool(flags & _real_socket.MSG_WAITALL) and self.timeout is None
        while True:
            if waitall and len(self.buf) < n and not self.eof:
                s.block(lambda: len(self.buf) >= n or self.eof or self.closed, None, what="recv-waitall")
                continue
            if self.buf:
                k = min(n, len(self.buf))
                k = k if waitall else self.net.short_read(self, k)
                out = bytes(self.buf[:k])
                del self.buf[:k]
                self.consumed += k
                self.recv_log.append(k)
                s.log.add(s.now, s.me(), "recv", (self.peer.no if self.peer else -1, n, k))
                return out
            if self.eof:
                self.empty_reads += 1
                s.log.add(s.now, s.me(), "recv-eof", self.peer.no if self.peer else -1)
                if self.empty_reads > self.net.max_empty_reads:
                    raise SimHang("reader keeps calling recv after EOF")
                return b""
            if self.timeout == 0.0:
                raise BlockingIOError(11, "Resource temporarily unavailable")
            deadline = None if self.timeout is None else s.now + self.timeout
            ok = s.block(lambda: bool(self.buf) or self.eof or self.closed, deadline, what="recv")
            if self.closed:
                raise OSError(9, "Bad file descriptor")
            if not ok:
                self.net.faults.hit("idle-timeout")
                s.log.add(s.now, s.me(), "recv-timeout", self.peer.no if self.peer else -1)
                raise TimeoutError("timed out")

    def recv_into(self, buffer, nbytes=0, flags=0):
        n = nbytes or len(buffer)
        data = self.recv(n)
        buffer[: len(data)] = data
        return len(data)

    def sendall(self, data, flags=0):
        s = self.sched
        s.yield_point("send")
        if self.closed:
            raise OSError(9, "Bad file descriptor")
        seq = s.log.add(s.now, s.me(), "send", (self.peer.no if self.peer else -1, bytes(data).hex()[:96], len(data)))
        self.sent.append((seq, s.now, s.me(), bytes(data)))
        self.net.on_send(self, bytes(data))

    def send(self, data, flags=0):
        self.sendall(data)
        return len(data)

    def shutdown(self, how):
        pass

    def close(self):
        self.sched.yield_point("close")
        if not self.closed:
            self.closed = True
            self.sched.log.add(self.sched.now, self.sched.me(), "close", self.peer.no if self.peer else -1)

    def __enter__(self):
        return self

    def __exit__(self, *a):
        self.close()

    def makefile(self, *a, **k):
        raise HarnessError("socket.makefile is not simulated")

    family = _real_socket.AF_INET
    type = _real_socket.SOCK_STREAM
    proto = 0

    def getsockopt(self, *a):
        return 0

    def __getattr__(self, name):
        # something a real socket has and this stand-in lacks is the harness's gap, not a
        # defect of the code that uses it
        if not name.startswith("_") and hasattr(_real_socket.socket, name):
            raise HarnessError(f"socket.socket.{name} is not simulated")
        raise AttributeError(name)


class Peer:
    def __init__(self, no, host, port, segments, close_after=False):
        self.no = no
        self.host = host
        self.port = port
        self.addr = (host, port)
        self.segments = segments  # list of (delay_after_connect, bytes)
        self.close_after = close_after
        self.sock = None


class Net:
    def __init__(self, sched, peers, faults, rng, short_read_rate=0.0, max_empty_reads=8):
        self.sched = sched
        self.peers = {(p.host, p.port): p for p in peers}
        self.by_port = {p.port: p for p in peers}
        self.faults = faults
        self.rng = rng  # only for short reads; consumed in deterministic recv order
        self.short_read_rate = short_read_rate
        self.max_empty_reads = max_empty_reads
        self.sockets = []
        self._recv_cap = None
        self.send_hook = None

    def set_recv_cap(self, cap):
        self._recv_cap = cap

    def recv_cap(self, sock):
        return self._recv_cap

    socket_class = None

    def new_socket(self, *a, **k):
        if self.socket_class is not None:
            return self.socket_class()
        s = SimSocket(self)
        s.local_port = 50000 + len(self.sockets)
        self.sockets.append(s)
        return s

    def connect(self, sock, addr):
        host, port = addr
        if isinstance(host, bytes):
            host = host.decode()
        peer = self.peers.get((host, port)) or self.by_port.get(port)
        if peer is None:
            raise ConnectionRefusedError(111, "Connection refused")
        peer.sock = sock
        sock.peer = peer
        self.sched.log.add(self.sched.now, self.sched.me(), "connect", peer.no)
        for delay, data in peer.segments:
            self.sched.after(delay, lambda d=data, s=sock: self._deliver(s, d))
        if peer.close_after:
            last = peer.segments[-1][0] if peer.segments else 0.0
            self.sched.after(last, lambda s=sock: self._eof(s))

    def _deliver(self, sock, data):
        sock.buf += data
        self.sched.log.add(self.sched.now, "net", "deliver", (sock.peer.no, len(data)))

    def _eof(self, sock):
        sock.eof = True
        self.faults.hit("peer-close")
        self.sched.log.add(self.sched.now, "net", "eof", sock.peer.no)

    def short_read(self, sock, k):
        if k > 1 and self.short_read_rate and self.rng.random() < self.short_read_rate:
            self.faults.hit("short-read")
            return self.rng.randrange(1, k)
        return k

    def on_send(self, sock, data):
        if self.send_hook:
            self.send_hook(sock, data)


class SocketModule:
    """Stand-in for the `socket` module as seen from the code under test."""

    def __init__(self, net):
        self._net = net
        self.timeout = TimeoutError
        self.error = OSError

        # `socket.socket` is a class in the real module: code may test `type(s) is socket.socket`
        # or subclass it.  A per-run subclass of SimSocket bound to this network plays that part.
        class socket(SimSocket):  # noqa: N801
            def __init__(self_, *a, **k):
                SimSocket.__init__(self_, net)
                self_.local_port = 50000 + len(net.sockets)
                net.sockets.append(self_)

        socket.__qualname__ = "socket"
        self.socket = socket
        net.socket_class = socket

    def create_connection(self, address, timeout=None, source_address=None, **k):
        s = self._net.new_socket()
        if timeout is not None:
            s.settimeout(timeout)
        s.connect(address)
        return s

    def __getattr__(self, name):
        v = getattr(_real_socket, name)
        if isinstance(v, (int, str, bytes)) or name in ("gaierror", "herror", "inet_aton", "inet_ntoa", "inet_pton", "inet_ntop", "htons", "ntohs", "htonl", "ntohl"):
            return v
        raise HarnessError(f"socket.{name} is not simulated")
