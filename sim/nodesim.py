"""
In-process fake bitcoind behind the `bits.rpc.urlopen` seam, plus a UTXO ledger.

The real bits.rpc.rpc_method runs: it builds the auth header and the JSON-RPC
request, calls urlopen(Request) -- which lands here -- and json.load()s the response
body.  Responses are JSON *text* in Bitcoin Core's format (amounts printed with
eight decimals), so the library parses the same floats a real node would give it.
"""
import base64
import io
import json
from urllib.error import HTTPError, URLError

from ref import addr as A

from .core import HarnessError


def fmt_amount(sat, mode="fixed8"):
    """Bitcoin Core's ValueFromAmount: fixed 8 decimals.  mode="trimmed": the same number
    with trailing zeros removed ("1", "1.5"), as a re-encoding proxy might print it - still a
    plain JSON number without exponent."""
    s = "%d.%08d" % (sat // 100000000, sat % 100000000)
    if mode == "trimmed":
        s = s.rstrip("0").rstrip(".")
    return s


class VirtualTime:
    """Replaces the clock functions of the real `time` module by a virtual clock for the
    duration of a run (the remote node advances it by its response latency)."""

    NAMES = ("time", "monotonic", "perf_counter", "sleep", "time_ns", "monotonic_ns")

    def __init__(self, epoch=1700000000.0):
        self.now = 0.0
        self.epoch = epoch
        self.wall_offset = 0.0  # wall-clock jumps (NTP step, operator): time.time() only, monotonic is unaffected
        self._saved = {}

    def advance(self, d):
        self.now += max(0.0, d)

    def __enter__(self):
        import time as _t

        for n in self.NAMES:
            self._saved[n] = getattr(_t, n)
        _t.time = lambda: self.epoch + self.now + self.wall_offset
        _t.monotonic = lambda: 1000.0 + self.now
        _t.perf_counter = lambda: 1000.0 + self.now
        _t.sleep = lambda d: self.advance(d)
        _t.time_ns = lambda: int((self.epoch + self.now + self.wall_offset) * 1e9)
        _t.monotonic_ns = lambda: int((1000.0 + self.now) * 1e9)
        return self

    def __exit__(self, *exc):
        import time as _t

        for n in self.NAMES:
            setattr(_t, n, self._saved[n])
        return False


class Response(io.BytesIO):
    status = 200

    def getcode(self):
        return self.status


class Ledger:
    def __init__(self):
        self.utxos = {}  # (txid_hex_rpc_order, vout) -> {"sat": int, "spk": bytes, "owner": str, "height": int}
        self.order = []  # insertion order, for deterministic listing
        self.initial_total = 0
        self.fees = 0

    def add(self, txid_hex, vout, sat, spk, owner, height=1):
        k = (txid_hex, vout)
        self.utxos[k] = {"sat": sat, "spk": spk, "owner": owner, "height": height}
        self.order.append(k)

    def total(self):
        return sum(u["sat"] for u in self.utxos.values())

    def by_spk(self, spk):
        return [k for k in self.order if k in self.utxos and self.utxos[k]["spk"] == spk]


class SimNode:
    def __init__(self, ledger, log, faults, rng, user="sim", password="pw"):
        self.ledger = ledger
        self.log = log
        self.faults = faults
        self.rng = rng
        self.user = user
        self.password = password
        self.fault_plan = []  # consumed one per request: None | kind
        self.requests = []
        self.last_reported = None
        self.reports = {}  # scriptPubKey -> keys reported by the most recent scan for it
        self.order_mode = "insertion"  # or "shuffled" / "reversed"
        self.amount_format = "fixed8"
        self.vtime = None  # VirtualTime, advanced by every response
        self.latency = 0.05
        self.height = 200

    # the urlopen seam ---------------------------------------------------
    def urlopen(self, req, *a, **k):
        url = req.full_url if hasattr(req, "full_url") else str(req)
        fault = self.fault_plan.pop(0) if self.fault_plan else None
        if self.vtime is not None:
            self.vtime.advance(self.latency)
            if self.latency > 5:
                self.faults.hit("slow-node")
        self.log.add(len(self.requests), "rpc", "request", (url, fault or ""))
        if fault == "refused":
            self.faults.hit("rpc-connection-refused")
            raise URLError(ConnectionRefusedError(111, "Connection refused"))
        auth = req.get_header("Authorization") or ""
        want = "Basic " + base64.b64encode(f"{self.user}:{self.password}".encode()).decode()
        if fault == "401" or auth != want:
            self.faults.hit("rpc-401")
            raise HTTPError(url, 401, "Unauthorized", {}, io.BytesIO(b""))
        try:
            body = json.loads(req.data.decode("ascii"))
        except Exception as e:
            raise HarnessError(f"request body is not JSON: {e}")
        self.requests.append(body)
        rid = body.get("id")
        if fault == "500-warmup":
            self.faults.hit("rpc-500-warmup")
            return self._error(url, rid, -28, "Loading block index...")
        method, params = body.get("method"), body.get("params", [])
        if method == "scantxoutset":
            if fault == "500-scan-in-progress":
                self.faults.hit("rpc-500-scan-in-progress")
                return self._error(url, rid, -8, "Scan already in progress, use action \"abort\" or \"status\"")
            if fault == "scan-unsuccessful":
                self.faults.hit("rpc-scan-unsuccessful")
                return self._ok(rid, '{"success":false}')
            return self._scan(url, rid, params)
        if method == "getblockcount":
            return self._ok(rid, str(self.height))
        if method == "getbestblockhash":
            return self._ok(rid, '"%064x"' % self.height)
        return self._error(url, rid, -32601, "Method not found")

    def _ok(self, rid, result_text):
        return Response(('{"result":%s,"error":null,"id":%s}\n' % (result_text, json.dumps(rid))).encode())

    def _error(self, url, rid, code, message):
        body = json.dumps({"result": None, "error": {"code": code, "message": message}, "id": rid}).encode()
        raise HTTPError(url, 500 if code != -32601 else 404, "Internal Server Error", {}, io.BytesIO(body))

    def _scan(self, url, rid, params):
        if len(params) != 2 or params[0] != "start" or not isinstance(params[1], list) or len(params[1]) != 1:
            return self._error(url, rid, -8, f"Invalid scantxoutset parameters {params!r}")
        desc = params[1][0]
        try:
            spk = self.descriptor_spk(desc)
        except Exception as e:
            return self._error(url, rid, -5, f"Invalid descriptor '{desc}': {e}")
        keys = self.ledger.by_spk(spk)
        if self.order_mode == "reversed":
            keys = keys[::-1]
        elif self.order_mode == "shuffled":
            keys = list(keys)
            self.rng.shuffle(keys)
        self.last_reported = {"desc": desc, "spk": spk, "keys": list(keys)}
        self.reports[spk] = list(keys)
        unspents = []
        total = 0
        for txid, vout in keys:
            u = self.ledger.utxos[(txid, vout)]
            total += u["sat"]
            unspents.append(
                '{"txid":"%s","vout":%d,"scriptPubKey":"%s","desc":"%s","amount":%s,"coinbase":false,"height":%d}'
                % (txid, vout, u["spk"].hex(), desc.replace('"', ""), fmt_amount(u["sat"], self.amount_format), u["height"])
            )
        text = '{"success":true,"txouts":%d,"height":%d,"bestblock":"%064x","unspents":[%s],"total_amount":%s}' % (
            len(self.ledger.utxos),
            self.height,
            self.height,
            ",".join(unspents),
            fmt_amount(total, self.amount_format),
        )
        return self._ok(rid, text)

    @staticmethod
    def descriptor_spk(desc):
        desc = desc.split("#")[0]
        if desc.startswith("pk(") and desc.endswith(")"):
            return A.spk_p2pk(bytes.fromhex(desc[3:-1]))
        if desc.startswith("addr(") and desc.endswith(")"):
            return A.address_to_spk(desc[5:-1])
        if desc.startswith("raw(") and desc.endswith(")"):
            return bytes.fromhex(desc[4:-1])
        raise ValueError("unsupported descriptor")
