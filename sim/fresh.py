"""
Hermetic runs: give a simulated run brand-new module objects for the modules whose
state could otherwise leak from an earlier run of the same worker process.

refresh(["bits.crypto", "bits.utils", "bits.p2p"]) executes each module's (cached,
pre-compiled) body in a new module object, installs it in sys.modules and in its parent
package, and re-points every `from <module> import name` alias held by other loaded
bits modules at the new object.  Cost: a few hundred microseconds per module.
"""
import sys
import types

from . import sched as S
from .core import import_bits

_codes = {}
_alias_holders = {}  # module name -> names of loaded bits modules that hold aliases into it


def _code_for(mod):
    c = _codes.get(mod.__name__)
    if c is None:
        with open(mod.__file__, "rb") as f:
            c = compile(f.read(), mod.__file__, "exec")
        _codes[mod.__name__] = c
    return c


def refresh(names):
    import_bits()
    out = []
    for name in names:
        old = sys.modules.get(name)
        if old is None:
            __import__(name)
            old = sys.modules[name]
        code = _code_for(old)
        new = types.ModuleType(name)
        new.__file__ = old.__file__
        new.__package__ = old.__package__
        new.__spec__ = old.__spec__
        new.__loader__ = getattr(old, "__loader__", None)
        if hasattr(old, "__path__"):
            new.__path__ = old.__path__
        sys.modules[name] = new
        S.global_patch_on()  # synchronisation objects made by the module body are scheduler-aware
        try:
            exec(code, new.__dict__)
        finally:
            S.global_patch_off()
        parent, _, leaf = name.rpartition(".")
        if parent and parent in sys.modules:
            setattr(sys.modules[parent], leaf, new)
        # re-point aliases (`from bits.utils import sig` in bits/__init__.py, ...)
        holders = _alias_holders.get(name)
        scan = sorted(m for m in sys.modules if m == "bits" or m.startswith("bits.")) if holders is None else holders
        found = []
        for mname in scan:
            m = sys.modules.get(mname)
            if m is new or m is None:
                continue
            d = m.__dict__
            hit = False
            for k in list(d):
                v = d[k]
                if v is old:
                    d[k] = new
                    hit = True
                elif getattr(v, "__module__", None) == name and isinstance(v, (types.FunctionType, type)):
                    nv = new.__dict__.get(getattr(v, "__name__", k))
                    if nv is not None and nv is not v:
                        d[k] = nv
                        hit = True
            if hit:
                found.append(mname)
        if holders is None:
            _alias_holders[name] = found  # the import graph is static: only these need a look next time
        S.patch_modules([new])
        out.append(new)
    return out
