"""
Simulated entropy source behind the `secrets` seam.

Values come from a tape of directives resolved *relative to the bound the code
asks for*, so the simulator never returns a value outside the contract of
secrets.randbelow.  When the tape is exhausted draws continue from a PRNG stream.
Every draw is logged.  The low-level source (os.urandom as used by
random.SystemRandom) is covered too, so code that by-passes `secrets` still gets
deterministic, logged bytes.
"""
import os
import random as _random
import secrets as _real_secrets

from .core import HarnessError


class EntropyHang(BaseException):
    """An operation drew far more often than any terminating caller would."""


class SimEntropy:
    def __init__(self, log, rng, tape=(), max_draws_per_op=64):
        self.log = log
        self.rng = rng
        self.tape = list(tape)
        self.pos = 0
        self.draws = []  # (op index, kind, bound, value)
        self.op = 0
        self.op_draws = 0
        self.max_draws_per_op = max_draws_per_op
        self.last_value = None
        self.history = []  # values of all randbelow draws
        self.faults = None
        self.raw_bytes = 0

    # -- per operation bookkeeping
    def begin_op(self, tape=None):
        self.op += 1
        self.op_draws = 0
        if tape is not None:
            self.tape = list(tape)
            self.pos = 0

    def _count(self):
        self.op_draws += 1
        if self.op_draws > self.max_draws_per_op:
            raise EntropyHang(f"{self.op_draws} draws in one operation")

    def _directive(self):
        if self.pos < len(self.tape):
            d = self.tape[self.pos]
            self.pos += 1
            return d
        return None

    def _resolve(self, d, bound):
        if d is None:
            return self.rng.randrange(bound)
        if isinstance(d, dict):
            if "v" in d:
                v = int(d["v"], 16) if isinstance(d["v"], str) else d["v"]
                return v % bound
            if "frac" in d:
                if bound.bit_length() > 1000:  # beyond float range (a caller reading a large block)
                    return min(bound - 1, (bound * int(d["frac"] * (1 << 53))) >> 53)
                return min(bound - 1, int(d["frac"] * bound))
            if "repeat" in d:
                j = d["repeat"]
                return self.history[j] % bound if 0 <= j < len(self.history) else self.rng.randrange(bound)
        if d == "RAISE":
            if self.faults is not None:
                self.faults.hit("entropy-unavailable")
            self.log.add(self.op, "rng", "raise", "")
            raise OSError(5, "simulated: entropy source unavailable")
        if d == "ZERO":
            return 0
        if d == "ONE":
            return 1 % bound
        if d == "BOUND-1":
            return bound - 1
        if d == "BOUND-2":
            return max(0, bound - 2)
        if d == "MID":
            return bound // 2
        if d == "REPEAT-LAST":
            return self.history[-1] % bound if self.history else self.rng.randrange(bound)
        raise HarnessError(f"unknown entropy directive {d!r}")

    # -- the secrets API
    def randbelow(self, bound):
        if bound <= 0:
            raise ValueError("Upper bound must be positive.")
        self._count()
        d = self._directive()
        v = self._resolve(d, bound)
        if self.faults is not None and isinstance(d, str) and d != "RAISE":
            self.faults.hit("draw-" + d)
        self.history.append(v)
        self.draws.append((self.op, "randbelow", bound, v))
        self.log.add(self.op, "rng", "randbelow", (hex(bound)[:12], hex(v)[:20]))
        return v

    def randbits(self, k):
        return self.randbelow(1 << k) if k else 0

    def token_bytes(self, n=None):
        n = 32 if n is None else n
        return self.randbelow(1 << (8 * n)).to_bytes(n, "big") if n else b""

    def token_hex(self, n=None):
        return self.token_bytes(n).hex()

    def token_urlsafe(self, n=None):
        import base64

        return base64.urlsafe_b64encode(self.token_bytes(n)).rstrip(b"=").decode("ascii")

    def choice(self, seq):
        return seq[self.randbelow(len(seq))]

    def compare_digest(self, a, b):
        return _real_secrets.compare_digest(a, b)

    # -- the low-level source
    def urandom(self, n):
        self._count()
        self.raw_bytes += n
        b = self.rng.getrandbits(8 * n).to_bytes(n, "big") if n else b""
        self.draws.append((self.op, "urandom", n, int.from_bytes(b, "big")))
        self.log.add(self.op, "rng", "urandom", n)
        return b

    @property
    def SystemRandom(self):
        raise HarnessError("secrets.SystemRandom is not simulated")


class EntropySeam:
    """Rebinds `<module>.secrets` for the listed modules, the functions of the real
    `secrets` module, and the low-level os.urandom / random._urandom."""

    def __init__(self, ent, modules):
        self.ent = ent
        self.modules = modules
        self.saved = []

    def __enter__(self):
        ent = self.ent
        for m in self.modules:
            if getattr(m, "secrets", None) is not None:
                self.saved.append((m, "secrets", m.secrets))
                m.secrets = ent
            for fn in ("randbelow", "token_bytes", "randbits", "choice", "token_hex"):
                if getattr(m, fn, None) is getattr(_real_secrets, fn):
                    self.saved.append((m, fn, getattr(m, fn)))
                    setattr(m, fn, getattr(ent, fn))
        for fn in ("randbelow", "token_bytes", "randbits", "choice", "token_hex", "token_urlsafe"):
            self.saved.append((_real_secrets, fn, getattr(_real_secrets, fn)))
            setattr(_real_secrets, fn, getattr(ent, fn))
        self.saved.append((os, "urandom", os.urandom))
        os.urandom = ent.urandom
        self.saved.append((_random, "_urandom", _random._urandom))
        _random._urandom = ent.urandom
        return ent

    def __exit__(self, *exc):
        for obj, name, val in reversed(self.saved):
            setattr(obj, name, val)
        self.saved = []
        return False
