"""
Batch runner: fans simulated runs out over forked workers, aggregates reach
statistics, minimises and reports violations, writes evidence.

Exit codes: 0 held (KNOWN-FINDING lines allowed), 1 unlisted violation(s),
2 harness error (never accompanied by a VIOLATION line).
"""
import concurrent.futures as cf
import faulthandler
import importlib
import json
import multiprocessing
import os
import subprocess
import sys
import time
import traceback

from . import core as _core
from .core import (
    Counters,
    HarnessError,
    canonical,
    derive_seed,
    import_bits,
    load_known_findings,
    match_known,
)

ROOT = os.path.dirname(os.path.dirname(os.path.abspath(__file__)))
MAX_VIOL_PER_BATCH = 6


def load_prop(prop):
    return importlib.import_module(f"props.{prop.lower()}")


def tree_id():
    try:
        src = os.environ.get("BITS_SRC", "/repo/src")
        top = subprocess.run(["git", "-C", src, "rev-parse", "--show-toplevel"], capture_output=True, text=True).stdout.strip()
        rev = subprocess.run(["git", "-C", top, "rev-parse", "HEAD"], capture_output=True, text=True).stdout.strip()
        diff = subprocess.run(["git", "-C", top, "diff", "HEAD", "--", "src"], capture_output=True).stdout
        import hashlib

        return {"rev": rev, "dirty": hashlib.sha256(diff).hexdigest()[:12] if diff else ""}
    except Exception:
        return {"rev": "unknown", "dirty": ""}


# ----------------------------------------------------------------------------- worker
def _worker_batch(prop, tier, base, indices, recheck_every):
    faulthandler.enable()
    mod = load_prop(prop)
    agg = {
        "runs": 0,
        "faults": Counters(),
        "probes": Counters(),
        "digests": [],
        "nontrivial": 0,
        "violations": [],
        "sim_time": 0.0,
        "steps": 0,
        "stats": {},
        "samples": [],
        "strata": Counters(),
        "recheck": 0,
        "errors": [],
        "viol_runs": 0,
    }
    for idx in indices:
        seed = derive_seed(base, prop, tier, idx)
        try:
            del _core.RAISED[:]
            sc = mod.plan(seed, tier, idx)
            r = mod.execute(sc)
            if _core.RAISED:
                raise _core.RAISED[0]  # raised inside the code under test and swallowed there
            if recheck_every and idx % recheck_every == 0:
                r2 = mod.execute(sc, tape=r.tape) if r.tape is not None else mod.execute(sc)
                agg["recheck"] += 1
                if r2.digest != r.digest:
                    agg["errors"].append(f"nondeterminism: idx={idx} seed={seed} {r.digest[:12]} != {r2.digest[:12]}")
        except HarnessError as e:
            agg["errors"].append(f"idx={idx} seed={seed}: {type(e).__name__}: {e}")
            continue
        except Exception as e:
            agg["errors"].append(f"idx={idx} seed={seed}: {type(e).__name__}: {e}\n{traceback.format_exc()[-1500:]}")
            continue
        agg["runs"] += 1
        agg["faults"].merge(r.faults)
        agg["probes"].merge(r.probes)
        agg["sim_time"] += r.sim_time
        agg["steps"] += r.steps
        agg["strata"].hit(r.stratum or "-")
        if r.stats.get("digests") is not None:
            agg["nontrivial"] += len(r.stats["digests"])
            agg["digests"].extend(r.stats["digests"])
        elif r.nontrivial:
            agg["nontrivial"] += 1
            agg["digests"].append(r.digest[:16])
        if hasattr(mod, "merge_stats"):
            mod.merge_stats(agg["stats"], r.stats)
        if len(agg["samples"]) < 1 and idx % 7 == 0:
            agg["samples"].append(mod.sample(sc))
        if r.violations:
            agg["viol_runs"] += 1
            if len(agg["violations"]) < MAX_VIOL_PER_BATCH:
                agg["violations"].append({"index": idx, "seed": seed, "scenario": sc, "tape": r.tape, "violations": r.violations})
            else:
                agg["violations"].append({"index": idx, "seed": seed, "scenario": None, "tape": None, "violations": r.violations})
    return agg


# ----------------------------------------------------------------------------- driver
def run_check(prop, tier, base_seed, workers=None, runs=None, wall_cap=None, out=sys.stdout):
    t0 = time.time()
    mod = load_prop(prop)
    import_bits()
    if hasattr(mod, "selfcheck"):
        mod.selfcheck()
    cfg = mod.TIERS[tier]
    n = runs or cfg["runs"]
    bsz = cfg.get("batch", 100)
    workers = workers or int(os.environ.get("VERIF_WORKERS", "0")) or min(16, os.cpu_count() or 1)
    wall_cap = wall_cap or cfg.get("wall_cap", 900 if tier == "quick" else 6 * 3600)
    recheck_every = cfg.get("recheck_every", 97)
    print(f"# {prop} tier={tier} VERIF_SEED={base_seed} runs={n} workers={workers} first_seed={derive_seed(base_seed, prop, tier, 0)}", file=out, flush=True)
    batches = [list(range(i, min(n, i + bsz))) for i in range(0, n, bsz)]
    total = {
        "runs": 0,
        "faults": Counters(),
        "probes": Counters(),
        "digests": set(),
        "nontrivial": 0,
        "violations": [],
        "sim_time": 0.0,
        "steps": 0,
        "stats": {},
        "samples": [],
        "strata": Counters(),
        "recheck": 0,
        "errors": [],
        "viol_runs": 0,
    }
    ctx = multiprocessing.get_context("fork")
    harness_errors = []
    with cf.ProcessPoolExecutor(max_workers=workers, mp_context=ctx) as ex:
        futs = [ex.submit(_worker_batch, prop, tier, base_seed, b, recheck_every) for b in batches]
        try:
            for f in cf.as_completed(futs, timeout=wall_cap):
                try:
                    a = f.result()
                except Exception as e:  # worker died
                    harness_errors.append(f"worker failed: {type(e).__name__}: {e}")
                    continue
                total["runs"] += a["runs"]
                total["faults"].merge(a["faults"])
                total["probes"].merge(a["probes"])
                total["digests"].update(a["digests"])
                total["nontrivial"] += a["nontrivial"]
                total["violations"].extend(a["violations"])
                total["sim_time"] += a["sim_time"]
                total["steps"] += a["steps"]
                total["strata"].merge(a["strata"])
                total["recheck"] += a["recheck"]
                total["errors"].extend(a["errors"])
                total["viol_runs"] += a["viol_runs"]
                if len(total["samples"]) < 3:
                    total["samples"].extend(a["samples"])
                if hasattr(mod, "merge_stats"):
                    mod.merge_stats(total["stats"], a["stats"], final=False)
        except cf.TimeoutError:
            harness_errors.append(f"wall cap {wall_cap}s exceeded")
            for p in list(getattr(ex, "_processes", {}).values()):
                try:
                    p.kill()
                except Exception:
                    pass
    harness_errors.extend(total["errors"])
    wall = time.time() - t0

    # ---- classify violations
    findings = load_known_findings()
    known_hits = Counters()
    unknown = []
    for rec in sorted(total["violations"], key=lambda r: r["index"]):
        unk = []
        for v in rec["violations"]:
            fid = match_known(findings, prop, v)
            if fid:
                known_hits.hit(fid)
            else:
                unk.append(v)
        if unk:
            unknown.append((rec, unk))

    lines = []
    exit_code = 0
    for fid in sorted(known_hits):
        f = [x for x in findings if x["id"] == fid][0]
        lines.append(f"KNOWN-FINDING: property={prop} {fid}: {f['text']} (matched {known_hits[fid]} times)")
    replay_paths = []
    if unknown:
        exit_code = 1
        by_clause = {}
        for rec, unk in unknown:
            for v in unk:
                by_clause.setdefault(v["clause"], []).append((rec, v))
        for clause in sorted(by_clause):
            cands = [rv for rv in by_clause[clause] if rv[0]["scenario"] is not None]
            if not cands:
                continue
            rec, v = cands[0]
            path = report_violation(mod, prop, rec, v, len(by_clause[clause]), out)
            replay_paths.append(path)
            lines.append(f"VIOLATION property={prop} replay={path}")
            lines.append(f"#   clause={clause} key={v['key']} occurrences={len(by_clause[clause])} detail={v['detail'][:200]}")
    if harness_errors and exit_code == 0:
        exit_code = 2
    if total["runs"] == 0 and exit_code == 0:
        exit_code = 2
        harness_errors.append("no run completed")

    write_evidence(mod, prop, tier, base_seed, n, total, wall, known_hits, len(unknown), harness_errors, workers)
    for e in harness_errors[:20]:
        print(f"HARNESS-ERROR {e}", file=out)
    for l in lines:
        print(l, file=out)
    rph = total["runs"] / wall * 3600 if wall > 0 else 0
    print(
        f"# {prop} {tier}: runs={total['runs']} violating_runs={total['viol_runs']} unlisted={len(unknown)} known={sum(known_hits.values())} "
        f"distinct_nontrivial={len(total['digests'])} wall={wall:.1f}s runs/h={rph:.0f} exit={exit_code}",
        file=out,
        flush=True,
    )
    return exit_code


def rle(tape):
    if tape is None:
        return None
    out = []
    for c in tape:
        if out and out[-1][0] == c:
            out[-1][1] += 1
        else:
            out.append([c, 1])
    return out


def unrle(r):
    if r is None:
        return None
    return [c for c, n in r for _ in range(n)]


def _same_violation(mod, scenario, tape, clause):
    try:
        del _core.RAISED[:]
        r = mod.execute(scenario, tape=tape) if tape is not None else mod.execute(scenario)
        if _core.RAISED:
            return None
    except HarnessError:
        return None
    findings = load_known_findings()
    prop = getattr(mod, "PROPERTY", "")
    for v in r.violations:
        # the shrunk case must still be an *unlisted* violation: shrinking must not drift
        # into the feature space of an open known finding
        if v["clause"] == clause and not match_known(findings, prop, v):
            return r
    return None


def _tape_candidates(tape):
    """Fewer context switches: replace decisions by "stay on the running thread" (-1), in
    blocks of halving size."""
    n = len(tape)
    size = n
    while size >= 1:
        for start in range(0, n, size):
            if any(c != -1 for c in tape[start : start + size]):
                t2 = list(tape)
                t2[start : start + size] = [-1] * min(size, n - start)
                yield t2
        size //= 2
        if size and n // size > 64:
            break


def minimise(mod, scenario, tape, clause, budget=300, wall=240.0):
    """Greedy first-improvement descent: schedule tape first (generic), then the
    property's own shrink candidates."""
    t0 = time.time()
    tests = 0
    improved = True
    while improved and tests < budget and time.time() - t0 < wall:
        improved = False

        def cands():
            if tape:
                for t2 in _tape_candidates(tape):
                    yield scenario, t2
            if hasattr(mod, "shrink_candidates"):
                yield from mod.shrink_candidates(scenario, tape)

        for sc2, tp2 in cands():
            tests += 1
            r = _same_violation(mod, sc2, tp2, clause)
            if r is not None:
                scenario = sc2
                tape = tp2  # keep the requested tape (with its "stay" marks): shrinking stays monotone
                improved = True
                break
            if tests >= budget or time.time() - t0 > wall:
                break
    return scenario, tape


def report_violation(mod, prop, rec, v, count, out):
    scenario, tape = rec["scenario"], rec["tape"]
    clause = v["clause"]
    rdir = os.environ.get("VERIF_REPLAY_DIR") or os.path.join(ROOT, "replays")
    os.makedirs(rdir, exist_ok=True)
    base = os.path.join(rdir, f"{prop}-{clause}-{rec['seed']}")
    full = {
        "property": prop,
        "engine": getattr(mod, "ENGINE", ""),
        "seed": rec["seed"],
        "index": rec["index"],
        "scenario": scenario,
        "schedule_tape_rle": rle(tape),
        "tape_format": "run-length list of [thread id chosen at a choice point (>= 2 runnable threads), repeat]; 0 = driver; -1 = stay on the running thread",
        "expect": {"clause": clause, "key": v["key"]},
        "detail": v["detail"],
        "minimised": False,
        "tree": tree_id(),
    }
    with open(base + ".full.json", "w") as f:
        json.dump(full, f, sort_keys=True)
    try:
        sc2, tp2 = minimise(mod, scenario, tape, clause)
        r = _same_violation(mod, sc2, tp2, clause)
        if r is not None:
            kf = load_known_findings()
            vv = [x for x in r.violations if x["clause"] == clause and not match_known(kf, prop, x)][0]
            mini = dict(full)
            mini.update({"scenario": sc2, "schedule_tape_rle": rle(r.tape), "expect": {"clause": clause, "key": vv["key"]}, "detail": vv["detail"], "minimised": True})
            with open(base + ".json", "w") as f:
                json.dump(mini, f, sort_keys=True)
            # must reproduce in a fresh process
            rc = subprocess.run([sys.executable, os.path.join(ROOT, "check"), prop, "--replay", base + ".json"], capture_output=True, text=True, timeout=600)
            if rc.returncode == 1:
                return base + ".json"
            print(f"HARNESS-WARNING minimised replay did not reproduce in a fresh process (rc={rc.returncode}); reporting the unminimised file", file=out)
    except Exception as e:
        print(f"HARNESS-WARNING minimisation failed: {type(e).__name__}: {e}", file=out)
    return base + ".full.json"


def replay(prop, path, out=sys.stdout):
    mod = load_prop(prop)
    import_bits()
    with open(path) as f:
        rp = json.load(f)
    sc, tape = rp["scenario"], unrle(rp.get("schedule_tape_rle"))
    trace = bool(os.environ.get("VERIF_TRACE"))
    try:
        del _core.RAISED[:]
        r = mod.execute(sc, tape=tape, keep_events=trace) if tape is not None else mod.execute(sc, keep_events=trace)
        if _core.RAISED:
            raise _core.RAISED[0]
    except HarnessError as e:
        print(f"HARNESS-ERROR replay diverged: {e}", file=out)
        return 2
    if trace and r.stats.get("events"):
        print("# event log (seq, virtual time or step, actor, kind, detail):", file=out)
        for ev in r.stats["events"]:
            print("#   " + repr(ev)[:240], file=out)
    want = rp["expect"]["clause"]
    findings = load_known_findings()
    known = [v for v in r.violations if v["clause"] == want and match_known(findings, prop, v)]
    for v in r.violations:
        if v["clause"] == want and not match_known(findings, prop, v):
            print(f"VIOLATION property={prop} replay={path}", file=out)
            print(f"#   clause={v['clause']} key={v['key']} detail={v['detail'][:300]}", file=out)
            print(f"#   digest={r.digest}", file=out)
            return 1
    for v in known:
        fid = match_known(findings, prop, v)
        print(f"KNOWN-FINDING: property={prop} {fid}: replayed violation clause={v['clause']} key={v['key']} is the listed finding", file=out)
    print(f"# replay of {path}: violation '{want}' did not occur (other: {[v['clause'] for v in r.violations]}) digest={r.digest}", file=out)
    return 0


def write_evidence(mod, prop, tier, base_seed, n, total, wall, known_hits, n_unknown, harness_errors, workers):
    stats = dict(total["stats"])
    if hasattr(mod, "finalise_stats"):
        stats = mod.finalise_stats(stats)
    evals = total["runs"]
    if getattr(mod, "EVALS_FROM_STATS", None):
        evals = stats.get(mod.EVALS_FROM_STATS, evals)
        stats["histories"] = total["runs"]
    cov = {
        "evaluations": evals,
        "distinct_nontrivial": len(total["digests"]),
        "rule": getattr(mod, "RULE", ""),
        "samples": total["samples"][:3],
        "runs_per_hour": round(total["runs"] / wall * 3600) if wall > 0 else 0,
        "seeds": {"VERIF_SEED": base_seed, "first": derive_seed(base_seed, prop, tier, 0), "count": n, "derivation": "sha256(f'{VERIF_SEED}/{property}/{tier}/{index}')[:8]"},
        "sim_time_s": round(total["sim_time"], 3) if getattr(mod, "HAS_VIRTUAL_TIME", False) else None,
        "sim_steps": total["steps"],
        "faults_fired": dict(sorted(total["faults"].items())),
        "probes": dict(sorted(total["probes"].items())),
        "strata_runs": dict(sorted(total["strata"].items())),
        "components": getattr(mod, "COMPONENTS", {}),
        "known_findings_matched": dict(sorted(known_hits.items())),
        "determinism_recheck": {"runs_reexecuted": total["recheck"], "mismatches": sum(1 for e in harness_errors if e.startswith("nondeterminism"))},
        "harness_errors": len(harness_errors),
        "workers": workers,
        "exhaustive": False,
    }
    cov.update(stats)
    ev = {
        "property_id": prop,
        "tier": tier,
        "seed": base_seed,
        "level": getattr(mod, "LEVEL", "exploration"),
        "coverage": cov,
        "assumptions": getattr(mod, "ASSUMPTIONS", []),
        "wall_s": round(wall, 2),
        "violations": n_unknown,
    }
    edir = os.environ.get("VERIF_EVIDENCE_DIR") or os.path.join(ROOT, "evidence")
    os.makedirs(edir, exist_ok=True)
    p = os.path.join(edir, f"{prop}.json")
    with open(p + ".tmp", "w") as f:
        json.dump(ev, f, indent=1, sort_keys=True, default=str)
    os.replace(p + ".tmp", p)
