"""
Caller-thread simulation for library code that is not itself threaded: N simulated
caller threads each run a list of operations against the library concurrently,
under the baton scheduler, with line-level pre-emption inside the traced source
files.  Every run starts from a freshly imported `bits` package ("a new process"),
so module-level state built up by an earlier run cannot mask a race.
"""
import importlib
import sys
import threading

from . import sched as S
from .core import HarnessError, import_bits


def fresh_bits(submodules=("bits.ecmath", "bits.keys", "bits.utils")):
    """Drop every bits module and import the package again."""
    import_bits()
    for k in sorted(k for k in sys.modules if k == "bits" or k.startswith("bits.")):
        del sys.modules[k]
    import logging

    S.global_patch_on()  # locks created at import time are scheduler-aware
    try:
        bits = importlib.import_module("bits")
        mods = [importlib.import_module(m) for m in submodules]
    finally:
        S.global_patch_off()
    logging.disable(logging.CRITICAL)
    S.install_threading_seam(mods)
    S.patch_modules(mods)
    return bits, mods


def run_callers(rng, log, thread_fns, strategy, trace_files, tape=None, step_cap=4000000, granularity="line"):
    """thread_fns: list of callables (one per simulated caller thread).
    Returns (sched, died) where died[i] is the exception that killed thread i+1 or None."""
    sched = S.Sched(rng=rng, log=log, strategy=tuple(strategy), granularity=granularity, tape=tape, step_cap=step_cap, trace_files=tuple(trace_files), all_hot=True)
    sched.register_main()
    S.activate(sched)
    threads = []
    aborted = None
    try:
        try:
            for fn in thread_fns:
                t = threading.Thread(target=fn)
                threads.append(t)
                t.start()
            sched.block(sched.others_done, None, what="driver-join")
        except S.SimAbort:
            aborted = sched.abort_reason or "abort"
        finally:
            if sched.aborting:
                sched.abort_all_from_driver()
    finally:
        sys.settrace(None)
        S.deactivate()
    for t in threads:
        S._orig_thread_join(t, 30.0)
        if t.is_alive():
            raise HarnessError("simulated caller thread did not terminate")
    if aborted and (aborted == "step-cap" or aborted.startswith("deadlock")):
        raise S.StepCapExceeded(f"{aborted} after {sched.steps} steps")
    if aborted:
        raise HarnessError(f"caller simulation aborted: {aborted}")
    died = [sched.threads[tid].died for tid in sched.order[1:]]
    return sched, died
