"""
Installs / removes the netsim seams on the bits.p2p module (module-attribute
rebinding only; no hook in /repo is needed).
"""
import logging
import sys

from . import sched as S
from .core import HarnessError, import_bits
from .netsim import Net, SimClock, SocketModule

_p2p = None
_code = None
# renewed for every run; the last one is the module the run talks to
HERMETIC_MODULES = ["bits.crypto", "bits.utils", "bits.p2p"]


def p2p_module(fresh=False):
    """fresh=True: every simulated run is a new process as far as bits.p2p is concerned -
    the module body is executed again in a brand-new module object, so module-level
    state (caches, buffers) left by an earlier run in this worker cannot leak into
    this one.  bits.p2p and the helper modules it leans on (bits.crypto, bits.utils) are
    renewed; see sim/fresh.py."""
    global _p2p, _code
    if _p2p is None:
        import_bits()
        import bits.p2p as m

        _p2p = m
        with open(m.__file__, "rb") as f:
            _code = compile(f.read(), m.__file__, "exec")
        S.install_threading_seam([m])
        _warm_up_opcode_tracing()
        logging.disable(logging.CRITICAL)
    if fresh:
        from . import fresh as F

        _p2p = F.refresh(HERMETIC_MODULES)[-1]
    return _p2p


def _warm_up_opcode_tracing():
    """CPython 3.12 switches per-instruction events on interpreter-wide, lazily, the
    first time any frame sets f_trace_opcodes; code objects are re-instrumented
    on their next entry.  Do that once up front so the first simulated run of a
    process sees the same opcode events as every later one."""

    def probe():
        x = 0
        for _ in range(3):
            x += 1
        return x

    def tracer(frame, event, arg):
        frame.f_trace_opcodes = True
        return tracer

    old = sys.gettrace()
    sys.settrace(tracer)
    try:
        probe()
        probe()
    finally:
        sys.settrace(old)


class P2PEnv:
    """One simulated run's environment around bits.p2p."""

    def __init__(self, sched, net, clock, network):
        self.p2p = p2p_module()
        self.sched = sched
        self.net = net
        self.clock = clock
        self.network = network
        self._saved = {}

    def __enter__(self):
        m = self.p2p
        for name, val in (("socket", SocketModule(self.net)), ("time", self.clock)):
            if not hasattr(m, name):
                raise HarnessError(f"bits.p2p.{name} seam not found")
            self._saved[name] = getattr(m, name)
            setattr(m, name, val)
        self._saved_magic = m.MAGIC_START_BYTES
        m.set_magic_start_bytes(self.network)
        S.activate(self.sched)
        self.sched.install_trace()
        return self

    def __exit__(self, *exc):
        sys.settrace(None)
        S.deactivate()
        m = self.p2p
        for name in sorted(self._saved):
            setattr(m, name, self._saved[name])
        m.MAGIC_START_BYTES = self._saved_magic
        return False
