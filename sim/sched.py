"""
Baton-passing scheduler over real threads, plus the virtual-time event heap.

Exactly one simulated thread runs at any instant; every other one is parked on its
own semaphore.  Which thread runs next is decided here and only here, from the
schedule PRNG (generation mode) or from a recorded tape (replay mode).  Simulated
threads reach the scheduler at *yield points*:

  * every call on a simulated socket, clock, lock, event ...
  * every `line` (or `opcode`) trace event in a frame whose code comes from one of
    the traced source files (bits/p2p.py), via sys.settrace installed per thread.

Virtual time advances only when no thread is runnable: the clock jumps to the next
event on the heap (a delivery, a timeout).
"""
import heapq
import sys
import threading
import _thread

from .core import HarnessError

_real_allocate_lock = _thread.allocate_lock
_orig_thread_start = threading.Thread.start
_orig_thread_join = threading.Thread.join

ACTIVE = None  # the Sched of the run in progress in this process, if any


class SimAbort(BaseException):
    """Raised inside simulated threads to unwind them when a run is aborted."""


class SimDeadlock(HarnessError):
    pass


class StepCapExceeded(Exception):
    """The code under test kept running far beyond what any terminating execution of the
    scenario needs (a livelock / busy loop), or every thread is blocked for good."""


class TState:
    __slots__ = (
        "tid",
        "name",
        "sem",
        "status",
        "cond",
        "deadline",
        "timed_out",
        "thread",
        "prio",
        "died",
        "steps",
    )

    def __init__(self, tid, name):
        self.tid = tid
        self.name = name
        self.sem = _real_allocate_lock()
        self.sem.acquire()  # parked until released
        self.status = "runnable"  # runnable | blocked | done
        self.cond = None
        self.deadline = None
        self.timed_out = False
        self.thread = None
        self.prio = 0
        self.died = None
        self.steps = 0


class Sched:
    def __init__(
        self,
        rng,
        log,
        strategy=("random", 0.2),
        granularity="line",
        tape=None,
        step_cap=200000,
        trace_files=(),
        probes=None,
        all_hot=False,
    ):
        self.rng = rng
        self.log = log
        self.strategy = strategy
        self.granularity = granularity
        self.replay = tape is not None
        self.tape_in = list(tape) if tape is not None else None
        self.tape_pos = 0
        self.tape_out = []
        self.step_cap = step_cap
        self.trace_files = tuple(trace_files)
        self.probes = probes
        self.all_hot = all_hot
        self.now = 0.0
        self.heap = []
        self.hseq = 0
        self.threads = {}
        self.order = []
        self.current = None
        self.steps = 0
        self.switches = 0
        self.aborting = False
        self.abort_reason = None
        self.pending_deliveries = 0  # number of non-timeout events on the heap
        self._tls = threading.local()
        # pct
        self._pct_points = None
        if strategy[0] == "pct":
            d = strategy[1]
            horizon = strategy[2] if len(strategy) > 2 else 600
            self._pct_points = sorted(rng.randrange(1, horizon) for _ in range(d))
            self._pct_next_low = 0
        self._rr_left = strategy[1] if strategy[0] == "rr" else 0
        self._hot = True
        self.hot_steps = 0
        self._held = None
        self._hold_left = 0
        self._hold_points = None
        self.interesting = False
        self._hold_q = 0.0
        if strategy[0] == "hold":
            npts, horizon, maxlen = strategy[1], strategy[2], strategy[3]
            pts = sorted(rng.randrange(1, max(2, horizon)) for _ in range(npts))
            self._hold_points = [(p, rng.randrange(1, maxlen + 1) if rng.random() < 0.5 else 10**9) for p in pts]
            self._hold_q = strategy[4] if len(strategy) > 4 else 0.0

    # ------------------------------------------------------------------ threads
    def register_main(self, name="driver"):
        st = TState(0, name)
        st.thread = threading.current_thread()
        self.threads[0] = st
        self.order.append(0)
        self.current = 0
        self._tls.tid = 0
        st.prio = self._new_prio()
        return st

    def _new_prio(self):
        if self.strategy[0] == "pct":
            return 1000 + self.rng.randrange(1000000)
        return 0

    def me(self):
        return getattr(self._tls, "tid", None)

    def mark_interesting(self):
        """Instrumented shared objects call this on access: the next choice point
        is a preferred pre-emption point (search bias only)."""
        self.interesting = True

    def register_thread(self, thread):
        tid = len(self.order)
        st = TState(tid, f"t{tid}")
        st.thread = thread
        st.prio = self._new_prio()
        self.threads[tid] = st
        self.order.append(tid)
        self.log.add(self.now, self.me(), "thread-start", tid)
        return tid

    def thread_entry(self, tid):
        """First thing a new simulated thread does: park until scheduled."""
        self._tls.tid = tid
        self.threads[tid].sem.acquire()
        if self.aborting:
            raise SimAbort()
        self.install_trace()

    def thread_exit(self, tid):
        sys.settrace(None)
        st = self.threads[tid]
        st.status = "done"
        if not self.aborting:
            # (threads unwinding after an abort all run at once, in an order the OS decides:
            # nothing they do is part of the recorded history any more)
            self.log.add(self.now, tid, "thread-exit", repr(st.died) if st.died else "")
        if self.aborting:
            self._abort_wake_next(tid)
            return
        # hand the baton on; this thread never runs again
        nxt = self._choose(exclude_current=True)
        if nxt is None:
            # nothing can ever run again: should not happen while the driver lives
            self.abort("deadlock at thread exit")
            self._abort_wake_next(tid)
            return
        self.current = nxt
        self.threads[nxt].sem.release()

    # ------------------------------------------------------------------ tracing
    def install_trace(self):
        if self.granularity in ("line", "opcode") and self.trace_files:
            sys.settrace(self._global_trace)

    def _global_trace(self, frame, event, arg):
        code = frame.f_code
        if code.co_filename in self.trace_files:
            if self.granularity == "opcode":
                frame.f_trace_opcodes = True
            # methods can touch shared object state: "hot"; module-level helpers
            # (framing, codecs) work on locals only: "cold".  Only a search bias.
            if self.all_hot or code.co_varnames[:1] == ("self",):
                return self._local_trace_hot
            return self._local_trace_cold
        return None

    def _local_trace_hot(self, frame, event, arg):
        return self._trace_event(frame, event, True)

    def _local_trace_cold(self, frame, event, arg):
        return self._trace_event(frame, event, False)

    def _trace_event(self, frame, event, hot):
        me = self._local_trace_hot if hot else self._local_trace_cold
        if self.granularity == "opcode":
            # CPython 3.12 has crashed (segmentation fault) when an exception left a trace
            # callback - or tracing was switched off inside one - in a thread that uses
            # per-opcode tracing, while a run was being aborted.  So with opcode granularity a
            # trace callback never raises and never touches the trace state: once the run is
            # aborting the callbacks are no-ops, the released threads run freely, and SimAbort
            # is raised at their next explicit yield point (a simulated socket / lock / queue
            # call), i.e. from ordinary Python code.
            if event == "opcode" and not self.aborting:
                try:
                    self.yield_point("O", hot)
                except SimAbort:
                    pass
            return me
        if event == "line" and self.granularity == "line":
            self.yield_point("L", hot)
        return me

    # ------------------------------------------------------------------ events
    def at(self, t, fn, kind="delivery"):
        self.hseq += 1
        if kind != "timeout":
            self.pending_deliveries += 1
        heapq.heappush(self.heap, (t, self.hseq, kind, fn))

    def after(self, d, fn, kind="delivery"):
        self.at(self.now + d, fn, kind)

    def _run_next_event(self):
        t, _, kind, fn = heapq.heappop(self.heap)
        if kind != "timeout":
            self.pending_deliveries -= 1
        if t > self.now:
            self.now = t
        fn()

    # ------------------------------------------------------------------ choosing
    def _runnable(self):
        out = []
        for tid in self.order:
            st = self.threads[tid]
            if st.status == "runnable":
                out.append(tid)
            elif st.status == "blocked":
                if st.cond is not None and st.cond():
                    st.status = "runnable"
                    st.timed_out = False
                    out.append(tid)
        return out

    def _choose(self, exclude_current=False):
        """Pick the next thread to run, advancing virtual time if needed."""
        while True:
            while self.heap and self.heap[0][0] <= self.now:
                self._run_next_event()  # everything that is due has happened
            cands = self._runnable()
            if cands:
                break
            if not self.heap:
                return None
            self._run_next_event()
        if len(cands) == 1:
            return cands[0]
        cur = self.current
        if self.replay:
            if self.tape_pos < len(self.tape_in):
                c = self.tape_in[self.tape_pos]
                self.tape_pos += 1
            else:
                c = -1
            if c not in cands:
                c = cur if cur in cands else cands[0]
            self.tape_out.append(c)
            return c
        kind = self.strategy[0]
        hot = self._hot
        interesting, self.interesting = self.interesting, False
        if kind == "random":
            p = self.strategy[1] if hot else self.strategy[2]
            if cur in cands and self.rng.random() >= p:
                c = cur
            else:
                c = cands[self.rng.randrange(len(cands))]
        elif kind == "pct":
            if hot:
                self.hot_steps += 1
            if self._pct_points and self.hot_steps >= self._pct_points[0] and hot:
                self._pct_points.pop(0)
                if cur is not None:
                    self._pct_next_low += 1
                    self.threads[cur].prio = self._pct_next_low
            c = max(cands, key=lambda t: (self.threads[t].prio, -t))
        elif kind == "hold":
            # at seeded hot steps suspend the running thread for a seeded number of
            # steps of the others; otherwise run to block
            if hot:
                self.hot_steps += 1
            if self._held is not None:
                self._hold_left -= 1
                if self._hold_left <= 0:
                    held, self._held = self._held, None
                    if held in cands:
                        self.tape_out.append(held)
                        return held
            if self._held is None and hot and cur in cands:
                if self._hold_points and self.hot_steps >= self._hold_points[0][0]:
                    _, length = self._hold_points.pop(0)
                    self._held = cur
                    self._hold_left = length
                elif interesting and self._hold_q and self.rng.random() < self._hold_q:
                    self._held = cur
                    ml = self.strategy[3]
                    self._hold_left = self.rng.randrange(1, ml + 1) if ml and self.rng.random() < 0.5 else 10**9
            others = [t for t in cands if t != self._held]
            if not others:
                self._held = None
                others = cands
            if cur in others:
                c = cur
            else:
                c = others[self.rng.randrange(len(others))]
        elif kind == "rr":
            if cur in cands and self._rr_left > 0:
                self._rr_left -= 1
                c = cur
            else:
                self._rr_left = self.strategy[1]
                later = [t for t in cands if cur is None or t > cur]
                c = later[0] if later else cands[0]
        elif kind == "rtb":  # run to block
            c = cur if cur in cands else cands[0]
        else:
            raise HarnessError(f"unknown strategy {kind}")
        self.tape_out.append(c)
        return c

    # ------------------------------------------------------------------ yielding
    def _switch_to(self, nxt):
        me = self.me()
        if nxt == me:
            return
        self.switches += 1
        self.current = nxt
        self.threads[nxt].sem.release()
        self.threads[me].sem.acquire()
        if self.aborting:
            raise SimAbort()

    def yield_point(self, kind="", hot=True):
        me = self.me()
        if me is not None and self.aborting:
            raise SimAbort()  # (released threads run freely after an abort: the baton no longer matters)
        if me is None or me != self.current:
            return  # not a simulated thread / not ours
        self.steps += 1
        self.threads[me].steps += 1
        if self.steps > self.step_cap:
            self.abort("step-cap")
            raise SimAbort()
        self._hot = hot
        nxt = self._choose()
        if nxt is None:
            return
        self._switch_to(nxt)

    def block(self, cond, deadline=None, what=""):
        """Block the calling simulated thread until cond() or virtual deadline.

        Returns True if cond became true, False on timeout."""
        me = self.me()
        if me is not None and self.aborting:
            raise SimAbort()
        if me is None or me != self.current:
            raise HarnessError("block() from a thread that does not hold the baton")
        self.steps += 1
        if self.steps > self.step_cap:
            self.abort("step-cap")
            raise SimAbort()
        st = self.threads[me]
        if cond():
            return True
        st.status = "blocked"
        st.cond = cond
        st.timed_out = False
        if deadline is not None:
            token = object()
            st.deadline = token

            def fire(st=st, token=token):
                if st.status == "blocked" and st.deadline is token:
                    st.status = "runnable"
                    st.timed_out = True

            self.at(deadline, fire, kind="timeout")
        else:
            st.deadline = None
        self._hot = True
        nxt = self._choose()
        if nxt is None:
            self.abort("deadlock: nothing runnable and no events (blocked in %s)" % what)
            raise SimAbort()
        self._switch_to(nxt)
        st.cond = None
        st.deadline = None
        if st.timed_out:
            st.timed_out = False
            return False
        return True

    # ------------------------------------------------------------------ abort
    def abort(self, reason):
        if not self.aborting:
            self.aborting = True
            self.abort_reason = reason
            self.log.add(self.now, self.me(), "abort", reason)

    def _abort_wake_next(self, me):
        # release every parked thread so it can raise SimAbort and unwind
        for tid in self.order:
            if tid != me:
                st = self.threads[tid]
                if st.status != "done":
                    try:
                        st.sem.release()
                    except RuntimeError:
                        pass

    def abort_all_from_driver(self):
        """Called by the driver once it has caught SimAbort: let the others unwind."""
        self._abort_wake_next(0)

    # driver-side helpers -------------------------------------------------
    def others_done(self):
        return all(self.threads[t].status == "done" for t in self.order if t != 0)

    def quiescent(self):
        """True when no other thread can make progress without a timeout firing."""
        if self.pending_deliveries:
            return False
        for tid in self.order:
            if tid == 0:
                continue
            st = self.threads[tid]
            if st.status == "runnable":
                return False
            if st.status == "blocked" and st.cond is not None and st.cond():
                return False
        return True


# ---------------------------------------------------------------------------
# threading seam: while a Sched is ACTIVE, Thread.start / join made from a
# simulated thread are routed through it.


def _sim_start(self):
    sched = ACTIVE
    if sched is None or sched.me() is None:
        return _orig_thread_start(self)
    tid = sched.register_thread(self)
    orig_run = self.run

    def run_wrapper():
        try:
            sched.thread_entry(tid)
            try:
                orig_run()
            except SimAbort:
                raise
            except BaseException as exc:  # the thread under test died
                sched.threads[tid].died = exc
        except SimAbort:
            pass
        finally:
            sched.thread_exit(tid)

    self.run = run_wrapper
    _orig_thread_start(self)
    sched.yield_point("thread-start")


def _sim_join(self, timeout=None):
    sched = ACTIVE
    if sched is None or sched.me() is None:
        return _orig_thread_join(self, timeout)
    target = None
    for tid in sched.order:
        if sched.threads[tid].thread is self:
            target = sched.threads[tid]
    if target is None:
        return _orig_thread_join(self, timeout)
    deadline = None if timeout is None else sched.now + timeout
    sched.block(lambda: target.status == "done", deadline, what="join")


def _poll(cond, timeout):
    """Fallback for Sim* primitives used by a thread the scheduler does not know."""
    import time as _t

    end = None if timeout is None else _t.monotonic() + timeout
    while not cond():
        if end is not None and _t.monotonic() >= end:
            return False
        _t.sleep(0.0005)
    return True


class SimLock:
    """Scheduler-aware replacement for threading.Lock (non-reentrant)."""

    def __init__(self):
        self._l = _real_allocate_lock()
        self._owner = None

    def acquire(self, blocking=True, timeout=-1):
        sched = ACTIVE
        if sched is None or sched.me() is None:
            if timeout is None or timeout < 0:
                return self._l.acquire(blocking)
            return self._l.acquire(blocking, timeout)
        sched.yield_point("lock")
        while True:
            if self._l.acquire(False):
                self._owner = sched.me()
                return True
            if not blocking:
                return False
            deadline = None if (timeout is None or timeout < 0) else sched.now + timeout
            if not sched.block(lambda: not self._l.locked(), deadline, what="lock"):
                return False

    def release(self):
        self._owner = None
        self._l.release()

    def locked(self):
        return self._l.locked()

    __enter__ = acquire

    def __exit__(self, *a):
        self.release()


class SimRLock:
    def __init__(self):
        self._l = SimLock()
        self._owner = None
        self._count = 0

    def _ident(self):
        return threading.get_ident()

    def acquire(self, blocking=True, timeout=-1):
        me = self._ident()
        if self._owner == me:
            self._count += 1
            return True
        if self._l.acquire(blocking, timeout):
            self._owner = me
            self._count = 1
            return True
        return False

    def release(self):
        if self._owner != self._ident():
            raise RuntimeError("cannot release un-acquired lock")
        self._count -= 1
        if self._count == 0:
            self._owner = None
            self._l.release()

    __enter__ = acquire

    def __exit__(self, *a):
        self.release()

    # Condition support
    def _is_owned(self):
        return self._owner == self._ident()

    def _release_save(self):
        c = self._count
        self._count = 0
        self._owner = None
        self._l.release()
        return c

    def _acquire_restore(self, c):
        self._l.acquire()
        self._owner = self._ident()
        self._count = c


class SimEvent:
    def __init__(self):
        self._flag = False

    def is_set(self):
        sched = ACTIVE
        if sched is not None and sched.me() is not None:
            sched.yield_point("event")
        return self._flag

    isSet = is_set

    def set(self):
        sched = ACTIVE
        if sched is not None and sched.me() is not None:
            sched.yield_point("event")
        self._flag = True

    def clear(self):
        self._flag = False

    def wait(self, timeout=None):
        sched = ACTIVE
        if sched is None or sched.me() is None:
            return _poll(lambda: self._flag, timeout)
        deadline = None if timeout is None else sched.now + timeout
        sched.block(lambda: self._flag, deadline, what="event")
        return self._flag


class SimCondition:
    def __init__(self, lock=None):
        self._lock = lock if lock is not None else SimRLock()
        self.acquire = self._lock.acquire
        self.release = self._lock.release
        self._waiters = []

    def __enter__(self):
        return self._lock.__enter__()

    def __exit__(self, *a):
        return self._lock.__exit__(*a)

    def wait(self, timeout=None):
        sched = ACTIVE
        if sched is None or sched.me() is None:
            ticket = [False]
            self._waiters.append(ticket)
            saved = self._lock._release_save() if hasattr(self._lock, "_release_save") else self._lock.release()
            try:
                return _poll(lambda: ticket[0], timeout)
            finally:
                if hasattr(self._lock, "_acquire_restore"):
                    self._lock._acquire_restore(saved)
                else:
                    self._lock.acquire()
                if ticket in self._waiters:
                    self._waiters.remove(ticket)
        ticket = [False]
        self._waiters.append(ticket)
        if hasattr(self._lock, "_release_save"):
            saved = self._lock._release_save()
        else:
            self._lock.release()
            saved = None
        deadline = None if timeout is None else sched.now + timeout
        try:
            ok = sched.block(lambda: ticket[0], deadline, what="condition")
        finally:
            if saved is not None:
                self._lock._acquire_restore(saved)
            else:
                self._lock.acquire()
            if ticket in self._waiters:
                self._waiters.remove(ticket)
        return ok

    def wait_for(self, predicate, timeout=None):
        sched = ACTIVE
        end = None if timeout is None else sched.now + timeout
        result = predicate()
        while not result:
            if end is not None:
                left = end - sched.now
                if left <= 0:
                    break
                self.wait(left)
            else:
                self.wait()
            result = predicate()
        return result

    def notify(self, n=1):
        for t in self._waiters[:n]:
            t[0] = True
        del self._waiters[:n]

    def notify_all(self):
        self.notify(len(self._waiters))

    notifyAll = notify_all


class SimSemaphore:
    def __init__(self, value=1):
        self._v = value

    def acquire(self, blocking=True, timeout=None):
        sched = ACTIVE
        if sched is None or sched.me() is None:
            if not blocking and self._v <= 0:
                return False
            if not _poll(lambda: self._v > 0, timeout):
                return False
            self._v -= 1
            return True
        sched.yield_point("sem")
        while self._v <= 0:
            if not blocking:
                return False
            deadline = None if timeout is None else sched.now + timeout
            if not sched.block(lambda: self._v > 0, deadline, what="semaphore"):
                return False
        self._v -= 1
        return True

    def release(self, n=1):
        self._v += n

    __enter__ = acquire

    def __exit__(self, *a):
        self.release()


class SimQueue:
    """Scheduler-aware stand-in for queue.Queue / SimpleQueue / LifoQueue."""

    def __init__(self, maxsize=0):
        from collections import deque

        self.maxsize = maxsize
        self.queue = deque()
        self._unfinished = 0

    def qsize(self):
        return len(self.queue)

    def empty(self):
        return not self.queue

    def full(self):
        return 0 < self.maxsize <= len(self.queue)

    def _yield(self):
        sched = ACTIVE
        if sched is not None and sched.me() is not None:
            sched.yield_point("queue")
        return sched

    def put(self, item, block=True, timeout=None):
        import queue as _q

        sched = self._yield()
        while self.full():
            if not block or sched is None or sched.me() is None:
                raise _q.Full
            deadline = None if timeout is None else sched.now + timeout
            if not sched.block(lambda: not self.full(), deadline, what="queue.put"):
                raise _q.Full
        self.queue.append(item)
        self._unfinished += 1

    def put_nowait(self, item):
        return self.put(item, block=False)

    def get(self, block=True, timeout=None):
        import queue as _q

        sched = self._yield()
        while not self.queue:
            if not block or sched is None or sched.me() is None:
                raise _q.Empty
            deadline = None if timeout is None else sched.now + timeout
            if not sched.block(lambda: bool(self.queue), deadline, what="queue.get"):
                raise _q.Empty
        return self._pop()

    def _pop(self):
        return self.queue.popleft()

    def get_nowait(self):
        return self.get(block=False)

    def task_done(self):
        self._unfinished -= 1

    def join(self):
        sched = ACTIVE
        if sched is not None and sched.me() is not None:
            sched.block(lambda: self._unfinished <= 0, None, what="queue.join")


class SimLifoQueue(SimQueue):
    def _pop(self):
        return self.queue.pop()


class _Shim:
    """Module stand-in: listed names are overridden, the rest falls through."""

    def __init__(self, real, overrides):
        self.__dict__["_real"] = real
        self.__dict__["_over"] = overrides

    def __getattr__(self, name):
        over = self.__dict__["_over"]
        if name in over:
            return over[name]
        return getattr(self.__dict__["_real"], name)


_PATCHED = {}


def install_threading_seam(modules=()):
    """Route Thread.start/join through the active scheduler, and give the listed
    modules (and `threading` itself) scheduler-aware synchronisation objects.
    All of them behave like the real ones when no simulation is active or when
    called from a thread the scheduler does not know."""
    if _PATCHED:
        return
    _PATCHED["start"] = threading.Thread.start
    threading.Thread.start = _sim_start
    threading.Thread.join = _sim_join
    names = {
        "Lock": SimLock,
        "RLock": SimRLock,
        "Event": SimEvent,
        "Condition": SimCondition,
        "Semaphore": SimSemaphore,
        "BoundedSemaphore": SimSemaphore,
    }
    import queue as _queue

    qnames = {"Queue": SimQueue, "SimpleQueue": SimQueue, "LifoQueue": SimLifoQueue}
    for mod in modules:
        for n in sorted(names):
            if hasattr(mod, n) and getattr(mod, n) in (_REAL_PRIMS.get(n), _FACTORIES.get(n)):
                setattr(mod, n, names[n])
        for n in sorted(qnames):
            if hasattr(mod, n) and getattr(mod, n) in (_REAL_QUEUES.get(n), _QFACTORIES.get(n)):
                setattr(mod, n, qnames[n])
        if getattr(mod, "threading", None) is threading:
            mod.threading = _Shim(threading, names)
        if getattr(mod, "queue", None) is _queue:
            mod.queue = _Shim(_queue, qnames)


def patch_modules(modules):
    """(Re-)apply the synchronisation-object stand-ins to freshly imported modules."""
    import queue as _queue

    names = {"Lock": SimLock, "RLock": SimRLock, "Event": SimEvent, "Condition": SimCondition, "Semaphore": SimSemaphore, "BoundedSemaphore": SimSemaphore}
    qnames = {"Queue": SimQueue, "SimpleQueue": SimQueue, "LifoQueue": SimLifoQueue}
    for mod in modules:
        for n in sorted(names):
            if hasattr(mod, n) and getattr(mod, n) in (_REAL_PRIMS.get(n), _FACTORIES.get(n)):
                setattr(mod, n, names[n])
        for n in sorted(qnames):
            if hasattr(mod, n) and getattr(mod, n) in (_REAL_QUEUES.get(n), _QFACTORIES.get(n)):
                setattr(mod, n, qnames[n])
        if getattr(mod, "threading", None) is threading:
            mod.threading = _Shim(threading, names)
        if getattr(mod, "queue", None) is _queue:
            mod.queue = _Shim(_queue, qnames)


import os as _os
import queue as _queue_mod

_STDLIB = _os.path.dirname(_os.__file__)
_REAL_PRIMS = {n: getattr(threading, n) for n in ("Lock", "RLock", "Event", "Condition", "Semaphore", "BoundedSemaphore")}
_REAL_QUEUES = {n: getattr(_queue_mod, n) for n in ("Queue", "SimpleQueue", "LifoQueue")}
_SIM_PRIMS = {"Lock": SimLock, "RLock": SimRLock, "Event": SimEvent, "Condition": SimCondition, "Semaphore": SimSemaphore, "BoundedSemaphore": SimSemaphore}
_SIM_QUEUES = {"Queue": SimQueue, "SimpleQueue": SimQueue, "LifoQueue": SimLifoQueue}
_GLOBAL_ON = 0


def _factory(real, sim):
    def make(*a, **k):
        # the standard library keeps its own real primitives (Thread internals, logging, ...);
        # everything else - the code under test - gets the scheduler-aware version
        caller = sys._getframe(1).f_code.co_filename
        if caller.startswith(_STDLIB) and "site-packages" not in caller:
            return real(*a, **k)
        return sim(*a, **k)

    make.__name__ = getattr(real, "__name__", "factory")
    return make


_FACTORIES = {n: _factory(_REAL_PRIMS[n], _SIM_PRIMS[n]) for n in _REAL_PRIMS}
_QFACTORIES = {n: _factory(_REAL_QUEUES[n], _SIM_QUEUES[n]) for n in _REAL_QUEUES}


def global_patch_on():
    """threading.Lock & co. create scheduler-aware objects for non-stdlib callers.  Used
    while a module under test is being (re-)executed and while a simulation is active, so
    that locks made at import time, in __init__ or lazily inside a method are all
    cooperative.  Nestable."""
    global _GLOBAL_ON
    _GLOBAL_ON += 1
    if _GLOBAL_ON == 1:
        for n in sorted(_FACTORIES):
            setattr(threading, n, _FACTORIES[n])
        for n in sorted(_QFACTORIES):
            setattr(_queue_mod, n, _QFACTORIES[n])


def global_patch_off():
    global _GLOBAL_ON
    _GLOBAL_ON -= 1
    if _GLOBAL_ON == 0:
        for n in sorted(_REAL_PRIMS):
            setattr(threading, n, _REAL_PRIMS[n])
        for n in sorted(_REAL_QUEUES):
            setattr(_queue_mod, n, _REAL_QUEUES[n])


def activate(sched):
    global ACTIVE
    ACTIVE = sched
    global_patch_on()


def deactivate():
    global ACTIVE
    if ACTIVE is not None:
        global_patch_off()
    ACTIVE = None
