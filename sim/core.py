"""
Shared simulator core: seeds, event log, fault / probe counters, violations,
known-finding matching, delta-debugging helpers.

Nothing in here reads a real clock, a real RNG or iterates over a hash-ordered
container when producing something that ends up in an event log.
"""
import hashlib
import json
import os
import random
import sys


def bits_src():
    return os.environ.get("BITS_SRC", "/repo/src")


def import_bits():
    """Put $BITS_SRC first on sys.path and make sure that is the tree we run."""
    src = os.path.realpath(bits_src())
    if sys.path[0] != src:
        sys.path.insert(0, src)
    import bits  # noqa

    real = os.path.realpath(bits.__file__)
    if not real.startswith(src + os.sep):
        raise HarnessError(f"bits imported from {real}, expected under {src}")
    return bits


RAISED = []  # every HarnessError constructed in this process since the runner last cleared it


class HarnessError(Exception):
    """Anything that is the machinery's fault; never a verdict.  The code under test may
    swallow an exception raised inside it (a broad except in a receive loop, a thread that
    dies quietly), so construction is recorded: a run during which one was raised is a
    harness error whatever the oracles made of the aftermath."""

    def __init__(self, *a):
        super().__init__(*a)
        RAISED.append(self)


class HarnessUnsupported(HarnessError):
    pass


def derive_seed(base, prop, tier, index):
    h = hashlib.sha256(f"{base}/{prop}/{tier}/{index}".encode()).digest()
    return int.from_bytes(h[:8], "big")


def sub_rng(seed, label):
    h = hashlib.sha256(f"{seed}/{label}".encode()).digest()
    return random.Random(int.from_bytes(h[:8], "big"))


class EventLog:
    """(seq, vtime, actor, kind, detail) tuples plus a running digest."""

    __slots__ = ("events", "_h", "seq", "keep")

    def __init__(self, keep=True):
        self.events = []
        self._h = hashlib.sha256()
        self.seq = 0
        self.keep = keep

    def add(self, vtime, actor, kind, detail=""):
        self.seq += 1
        rec = (self.seq, vtime, actor, kind, detail)
        self._h.update(repr(rec).encode())
        if self.keep:
            self.events.append(rec)
        return self.seq

    def digest(self):
        return self._h.hexdigest()


class Counters(dict):
    def hit(self, name, n=1):
        self[name] = self.get(name, 0) + n

    def merge(self, other):
        for k in sorted(other):
            self[k] = self.get(k, 0) + other[k]


class Violation:
    __slots__ = ("clause", "key", "detail", "features")

    def __init__(self, clause, key, detail="", features=None):
        self.clause = clause
        self.key = key
        self.detail = detail
        self.features = features or {}

    def to_json(self):
        return {
            "clause": self.clause,
            "key": self.key,
            "detail": self.detail,
            "features": self.features,
        }

    def __repr__(self):
        return f"Violation({self.clause}, {self.key}, {self.detail[:80]})"


class RunResult:
    """What one simulated run returns to the runner (JSON-able via to_json)."""

    def __init__(self):
        self.violations = []  # list[dict]
        self.digest = ""
        self.faults = Counters()
        self.probes = Counters()
        self.tape = None  # schedule tape (thread engine only)
        self.nontrivial = False
        self.sim_time = 0.0
        self.steps = 0
        self.stats = {}  # engine-specific (merged by summing ints / union of lists)
        self.features = {}
        self.stratum = ""

    def to_json(self):
        return {
            "violations": self.violations,
            "digest": self.digest,
            "faults": dict(self.faults),
            "probes": dict(self.probes),
            "tape": self.tape,
            "nontrivial": self.nontrivial,
            "sim_time": self.sim_time,
            "steps": self.steps,
            "stats": self.stats,
            "features": self.features,
            "stratum": self.stratum,
        }


# --------------------------------------------------------------------------
# known findings


def load_known_findings(path=None):
    path = path or os.path.join(os.path.dirname(os.path.dirname(__file__)), "known_findings.json")
    if not os.path.exists(path):
        return []
    with open(path) as f:
        return json.load(f)["findings"]


def match_known(findings, prop, violation):
    """Return the id of the first *open* finding that the violation matches.

    where: {feature: [allowed values]} -- all listed features must be present in
    the violation's feature record with one of the allowed values.  A special
    key "any_of" holds a list of such dicts of which at least one must match.
    """
    for f in findings:
        if f.get("status") != "open" or f.get("property") != prop:
            continue
        if f.get("clause") not in (None, violation["clause"]):
            clauses = f.get("clauses")
            if not clauses or violation["clause"] not in clauses:
                continue
        if _where_ok(f.get("where", {}), violation.get("features", {})):
            return f["id"]
    return None


def _where_ok(where, feats):
    for k in sorted(where):
        if k == "any_of":
            if not any(_where_ok(w, feats) for w in where[k]):
                return False
            continue
        if k not in feats or feats[k] not in where[k]:
            return False
    return True


# --------------------------------------------------------------------------
# delta debugging


def ddmin_list(items, test, max_tests=400):
    """Classic ddmin on a list; test(sublist) -> True if failure persists."""
    n = 2
    tests = 0
    items = list(items)
    while len(items) >= 2 and tests < max_tests:
        chunk = max(1, len(items) // n)
        subsets = [items[i : i + chunk] for i in range(0, len(items), chunk)]
        reduced = False
        for i in range(len(subsets)):
            comp = [x for j, s in enumerate(subsets) if j != i for x in s]
            tests += 1
            if comp != items and test(comp):
                items = comp
                n = max(n - 1, 2)
                reduced = True
                break
            if tests >= max_tests:
                break
        if not reduced:
            if n >= len(items):
                break
            n = min(len(items), n * 2)
    if len(items) == 1 and tests < max_tests:
        if test([]):
            items = []
    return items


def canonical(obj):
    return json.dumps(obj, sort_keys=True, separators=(",", ":"))
