"""
C16 -- the send utility conserves value and produces validly signed transactions.

Real code under simulation: bits.tx.send_tx, bits.rpc.rpc_method (auth header, param
formatting, JSON parsing, HTTPError path), bits.bips.bip143.witness_message,
bits.sig / wif_decode / script builders / ecmath.
Stubs: bitcoind (SimNode behind bits.rpc.urlopen), the UTXO ledger, the entropy
source, the clock read by rpc_method.
"""
import hashlib
from fractions import Fraction

from ref import addr as A
from ref import secp256k1 as EC
from ref import txref as T
from sim.core import Counters, EventLog, HarnessError, RunResult, Violation, _where_ok, import_bits, load_known_findings, sub_rng
from sim.nodesim import Ledger, SimNode, VirtualTime
from sim.rngsim import EntropyHang, EntropySeam, SimEntropy

PROPERTY = "C16"
LEVEL = "exploration"
ENGINE = "nodesim"
HAS_VIRTUAL_TIME = True  # node latency and gaps between sends advance a virtual clock

TIERS = {
    "quick": {"runs": 1600, "batch": 8, "wall_cap": 1800},
    "thorough": {"runs": 40000, "batch": 16},
}

SENDER_KINDS = ["p2pk", "p2pk-u", "p2pkh", "p2pkh-u", "multisig", "p2sh", "p2wpkh", "p2wsh", "p2sh-p2wpkh", "p2sh-p2wsh"]
LEGACY = {"p2pk", "p2pk-u", "p2pkh", "p2pkh-u", "multisig", "p2sh"}
WIF_TYPE = {"p2pk": "p2pk", "p2pk-u": "p2pk", "p2pkh": "p2pkh", "p2pkh-u": "p2pkh", "multisig": "multisig", "p2sh": "p2sh", "p2wpkh": "p2wpkh", "p2wsh": "p2wsh", "p2sh-p2wpkh": "p2sh-p2wpkh", "p2sh-p2wsh": "p2sh-p2wsh"}
WIF_OFFSET = {"p2pkh": 0, "p2wpkh": 1, "p2sh-p2wpkh": 2, "p2pk": 3, "multisig": 4, "p2sh": 5, "p2wsh": 6, "p2sh-p2wsh": 7}
FLAGS = [0x01, 0x02, 0x03, 0x81, 0x82, 0x83]
DUST = 1000

COMPONENTS = {
    "real": [
        "bits.tx.send_tx (UTXO selection, amount conversion, outputs, legacy and segwit signing, scriptSig / witness assembly)",
        "bits.rpc.rpc_method (auth header, parameter formatting, JSON float parsing, HTTPError path)",
        "bits.bips.bip143.witness_message, bits.sig, bits.wif_decode, bits.script.*, bits.ecmath.*",
    ],
    "stub": [
        "thread scheduler for the concurrent stratum (2-3 simulated send_tx callers, line-level pre-emption inside tx/utils/ecmath/keys); package re-imported per run",
        "bitcoind: in-process JSON-RPC server behind bits.rpc.urlopen serving scantxoutset from a ledger, amounts as 8-decimal JSON text, seeded listing order, injected HTTP 500/401/refused/unsuccessful-scan",
        "UTXO ledger (transactions accepted by the reference validator are applied, so later sends spend earlier change outputs)",
        "entropy source (SimEntropy) and the clock read by rpc_method",
    ],
}
RULE = (
    "one evaluation = one seeded history of 1-5 send_tx calls over a ledger with 2-4 identities (all sender kinds, m-of-n <= 3) funded with 1-6 UTXOs each (vout 0..5, amount classes incl. values whose float*1e8 is inexact); "
    "every returned transaction is parsed by the reference parser and checked for input provenance, exact conservation, recipient/change amounts and scripts, version/locktime and, when signed, validity of every input under the "
    "reference legacy/BIP143 signature hashes and template validator; valid transactions are applied to the ledger. non-trivial = the send selected >= 2 inputs, or spent a vout != 0, or used a non-ALL flag, or an inexact amount, "
    "or an RPC fault fired; distinct = distinct SHA-256 of the event log"
)
ASSUMPTIONS = [
    "reference transaction parser / signature hashes / template validator in /verif/ref/txref.py (pinned to the BIP143 example transactions incl. all six hashtypes), address encoders in /verif/ref/addr.py (BIP173/350 and Base58 vectors)",
    "dust threshold = 1000 satoshis (the only threshold the code names): change below it may be dropped to fees",
    "the requested amount for a fraction f < 1 is floor or ceil of f*T (one satoshi of slack where the float fraction is inexact)",
    "the fake node answers scantxoutset exactly as Bitcoin Core formats it; no mempool, no confirmations",
    "a sender key list holds the first m keys of an m-of-n script in script order",
]

_mods = None
_OPEN = None


def open_findings():
    global _OPEN
    if _OPEN is None:
        _OPEN = [f for f in load_known_findings() if f.get("status") == "open" and f.get("property") == PROPERTY]
    return _OPEN


def mods():
    global _mods
    if _mods is None:
        bits = import_bits()
        import logging

        import bits.ecmath
        import bits.keys
        import bits.rpc
        import bits.tx
        import bits.utils

        logging.disable(logging.CRITICAL)
        _mods = (bits, bits.tx, bits.rpc, bits.ecmath, bits.keys, bits.utils)
    return _mods


# --------------------------------------------------------------------------- identities
def identity(kind, keys, m, net):
    """Everything about a party, computed with the reference encoders only."""
    comp = not kind.endswith("-u")
    pubs = [EC.pub_bytes(k, comp if kind in ("p2pk", "p2pk-u", "p2pkh", "p2pkh-u") else True) for k in keys]
    wv = (0x80 if net == "mainnet" else 0xEF) + WIF_OFFSET[WIF_TYPE[kind]]
    out = {"kind": kind, "net": net, "m": m, "n": len(keys)}
    suffix = b""
    if kind in ("p2pk", "p2pk-u"):
        spk = A.spk_p2pk(pubs[0])
        sender = pubs[0]
        suffix = b"\x01" if comp else b""
    elif kind in ("p2pkh", "p2pkh-u"):
        spk = A.spk_p2pkh(A.hash160(pubs[0]))
        sender = A.addr_p2pkh(A.hash160(pubs[0]), net).encode()
        suffix = b"\x01" if comp else b""
    elif kind == "multisig":
        spk = A.script_multisig(m, pubs)
        sender = spk
        suffix = spk
    elif kind == "p2sh":
        rs = A.script_multisig(m, pubs)
        spk = A.spk_p2sh(A.hash160(rs))
        sender = A.addr_p2sh(A.hash160(rs), net).encode()
        suffix = rs
    elif kind == "p2wpkh":
        spk = A.spk_witness(0, A.hash160(pubs[0]))
        sender = A.segwit_encode(A.HRP[net], 0, A.hash160(pubs[0])).encode()
    elif kind == "p2wsh":
        ws = A.script_multisig(m, pubs)
        spk = A.spk_witness(0, A.sha256(ws))
        sender = A.segwit_encode(A.HRP[net], 0, A.sha256(ws)).encode()
        suffix = ws
    elif kind == "p2sh-p2wpkh":
        rs = A.spk_witness(0, A.hash160(pubs[0]))
        spk = A.spk_p2sh(A.hash160(rs))
        sender = A.addr_p2sh(A.hash160(rs), net).encode()
    elif kind == "p2sh-p2wsh":
        ws = A.script_multisig(m, pubs)
        rs = A.spk_witness(0, A.sha256(ws))
        spk = A.spk_p2sh(A.hash160(rs))
        sender = A.addr_p2sh(A.hash160(rs), net).encode()
        suffix = ws
    else:
        raise HarnessError(kind)
    out["spk"] = spk
    out["sender_addr"] = sender
    out["wifs"] = [A.wif(k.to_bytes(32, "big"), wv, suffix).encode() for k in keys[:m]]
    return out


def recipient(desc, idents, net):
    """-> (argument for send_tx, expected scriptPubKey, kind label)"""
    k = desc["kind"]
    if k == "identity":
        idn = idents[desc["who"]]
        if idn["kind"] == "multisig":
            return idn["spk"], idn["spk"], "raw"
        return idn["sender_addr"], idn["spk"], "pubkey" if idn["kind"].startswith("p2pk") and not idn["kind"].startswith("p2pkh") else ("segwit" if idn["kind"] in ("p2wpkh", "p2wsh") else "base58")
    h = bytes.fromhex(desc["hash"])
    if k == "p2pkh":
        return A.addr_p2pkh(h[:20], net).encode(), A.spk_p2pkh(h[:20]), "base58"
    if k == "p2sh":
        return A.addr_p2sh(h[:20], net).encode(), A.spk_p2sh(h[:20]), "base58"
    if k == "p2wpkh":
        return A.segwit_encode(A.HRP[net], 0, h[:20]).encode(), A.spk_witness(0, h[:20]), "segwit"
    if k == "p2wsh":
        return A.segwit_encode(A.HRP[net], 0, h).encode(), A.spk_witness(0, h), "segwit"
    if k == "p2tr":
        return A.segwit_encode(A.HRP[net], 1, h).encode(), A.spk_witness(1, h), "segwit"
    if k == "pubkey":
        pk = EC.pub_bytes(int.from_bytes(h, "big") % (EC.N - 1) + 1, desc.get("compressed", True))
        return pk, A.spk_p2pk(pk), "pubkey"
    if k == "raw":
        spk = b"\x6a" + A.push(h[:20])  # OP_RETURN <20 bytes>: a raw script that is no key and no address
        return spk, spk, "raw"
    raise HarnessError(k)


# --------------------------------------------------------------------------- plan
CONFUSABLE_KEYS = [
    "0xc369524b55f2d2fedb5ab28e4b165f658cbd592cd6b47ed0932882bda2da03ab",
    "0xf2292ce2083d372ea34994409a5acc16f8200a52bdec9b79d901b1aede746799",
    "0xbdf3998b29fca1d5a12ef8c078020e0c8d0741866803717be59ee82f8f3d10a9",
]
EXACT = [5000000000, 100000000, 50000000, 2500000000, 1000000, 12500000]
INEXACT = [29000000, 110000000, 7000000, 57000000, 1999999999, 10000001, 114000000, 230000000 + 1, 2099999997690000]


def _amount(rng, cls):
    if cls == "exact":
        return rng.choice(EXACT)
    if cls == "inexact":
        return rng.choice(INEXACT) if rng.random() < 0.6 else rng.randrange(10**5, 10**10)
    if cls == "small":
        return rng.randrange(20000, 200000)
    if cls == "dust":
        return rng.randrange(294, 6000)  # smaller than some fees: selection boundaries matter
    if cls == "huge":
        return rng.randrange(10**14, 21 * 10**14)
    return rng.randrange(10**5, 10**11)


def plan(seed, tier="quick", index=0):
    rng = sub_rng(seed, "plan")
    stratum = rng.choice(["clean", "clean", "general", "general", "general", "general", "unsigned", "rpc-faults", "concurrent"])
    net = rng.choice(["mainnet", "testnet", "regtest"])
    n_id = rng.choice([2, 3, 3, 4])
    idents = []
    for i in range(n_id):
        kind = rng.choice(SENDER_KINDS)
        if kind in ("multisig", "p2sh", "p2wsh", "p2sh-p2wsh"):
            n = rng.choice([1, 2, 2, 3])
            m = rng.randrange(1, n + 1)
        else:
            n, m = 1, 1
        keys_ = [hex(rng.randrange(1, EC.N)) for _ in range(n)]
        if kind == "multisig" and rng.random() < 0.3:
            # raw scripts whose bytes look enough like a Bech32 string (single case, contain '1')
            # to get past the first checks of the address classifiers
            n, m, keys_ = 1, 1, [rng.choice(CONFUSABLE_KEYS)]
        multi = [x for x in idents if x["kind"] in ("multisig", "p2sh", "p2wsh", "p2sh-p2wsh") and x["kind"] != kind]
        if kind in ("multisig", "p2sh", "p2wsh", "p2sh-p2wsh") and multi and rng.random() < 0.5:
            # the same wallet keys behind another address type: identical redeem / witness script bytes
            src = rng.choice(multi)
            keys_, m = list(src["keys"]), src["m"]
        single = [x for x in idents if len(x["keys"]) == 1 and x["kind"] != kind]
        if len(keys_) == 1 and kind not in ("multisig",) and single and rng.random() < 0.3:
            keys_ = list(rng.choice(single)["keys"])
        idents.append({"kind": kind, "keys": keys_, "m": m})
    clean = stratum in ("clean", "concurrent")
    funding = []
    many = (not clean) and rng.random() < 0.04  # one wallet with a lot of small coins: many inputs in one transaction
    for i in range(n_id):
        k = 1 if clean else rng.choice([1, 1, 2, 3, 4, 6])
        if many and i == 0:
            k = rng.choice([12, 17, 24])
        for j in range(k):
            cls = "exact" if clean else rng.choice(["exact", "inexact", "inexact", "small", "dust", "huge", "random"])
            funding.append(
                {
                    "who": i,
                    "txid": hashlib.sha256(b"fund%d/%d/%d" % (seed & 0xFFFFFFFF, i, j)).hexdigest(),
                    "vout": 0 if clean else rng.choice([0, 0, 1, 2, 3, 5]),
                    "sat": _amount(rng, cls),
                }
            )
    # the ledger never holds more than the 21e6 BTC that can exist (float amounts are
    # exact to the satoshi only up to there)
    while sum(f["sat"] for f in funding) > 21 * 10**14:
        big = max(funding, key=lambda f: f["sat"])
        big["sat"] = big["sat"] // 7 + 1
    sends = []
    for s in range(1 if clean else (2 if many else rng.choice([1, 2, 3, 4, 5, 5, 9]))):
        who = 0 if many and s == 0 else rng.randrange(n_id)
        rk = rng.choice(["identity", "identity", "identity", "p2pkh", "p2sh", "p2wpkh", "p2wsh", "p2tr", "pubkey"] + ([] if clean else ["raw"]))
        rdesc = {"kind": rk, "hash": hashlib.sha256(b"rcpt%d/%d" % (seed & 0xFFFFFFFF, s)).hexdigest()}
        if rk == "identity":
            rdesc["who"] = rng.choice([x for x in range(n_id) if x != who])
            if not clean and rng.random() < 0.1:
                rdesc["who"] = who  # consolidation: the sender pays its own address
            if clean and idents[rdesc["who"]]["kind"] == "multisig":
                rdesc = {"kind": "p2wpkh", "hash": rdesc["hash"]}  # a bare-multisig recipient is a raw script
        if rk == "pubkey":
            rdesc["compressed"] = rng.random() < 0.7
        change = None
        if rng.random() < (0.3 if clean else 0.4) or (clean and idents[who]["kind"] == "multisig"):
            ck = rng.choice(["identity", "p2pkh", "p2wpkh", "p2sh"])
            change = {"kind": ck, "hash": hashlib.sha256(b"chg%d/%d" % (seed & 0xFFFFFFFF, s)).hexdigest()}
            if ck == "identity":
                change["who"] = rng.randrange(n_id)
                if not clean and rk == "identity" and rng.random() < 0.25:
                    change["who"] = rdesc["who"]  # change address = recipient address
                if clean and idents[change["who"]]["kind"] == "multisig":
                    change = {"kind": "p2pkh", "hash": change["hash"]}
        frac = rng.choice([1.0, 0.5]) if clean else rng.choice([1.0, 1.0, 0.5, 0.25, 0.1, 0.9, 0.3, 1 / 3, 0.999, 0.0001, rng.random()])
        sends.append(
            {
                "who": who,
                "recipient": rdesc,
                "change": change,
                "fraction": frac,
                # fees from nothing to absurd: the property puts no upper bound on them
                "fee": 1000 if clean else rng.choice([0, 1, 500, 1000, 1000, 2500, 10000, 10000, 250000, 10_000_001, 25_000_000, 300_000_000]),
                "version": 1 if clean else rng.choice([1, 1, 2]),
                "locktime": 0 if clean else rng.choice([0, 0, 1, 500000, 1700000000]),
                "flag": 0x01 if clean else rng.choice(FLAGS + [0x01, 0x01]),
                "signed": stratum != "unsigned",
                "order": "insertion" if clean else rng.choice(["insertion", "reversed", "shuffled"]),
                "rpc_fault": rng.choice(["refused", "401", "500-warmup", "500-scan-in-progress", "scan-unsuccessful", None]) if stratum == "rpc-faults" else None,
                "entropy": rng.choice([[], [], [], ["ONE"], ["BOUND-1"], ["ZERO", "ONE"]]),
                "amount_format": "fixed8" if clean or rng.random() < 0.75 else "trimmed",
                "latency": 0.05 if clean else rng.choice([0.01, 0.05, 0.3, 0.3, 2.0, 7.5, 31.0]),
                "gap_before": 0.0 if clean else rng.choice([0.0, 0.2, 3.0, 12.0, 45.0, 400.0]),
                "clock_jump": 0.0 if clean else rng.choice([0.0, 0.0, 0.0, 0.0, 3600.0, -3600.0, -86400.0]),
            }
        )
    sc = {"property": PROPERTY, "seed": seed, "stratum": stratum, "net": net, "idents": idents, "funding": funding, "sends": sends}
    if stratum == "concurrent":
        # 2-3 callers, each sending from a different identity at the same time
        senders = rng.sample(range(n_id), min(n_id, rng.choice([2, 2, 3])))
        base = sends[0]
        sc["sends"] = []
        for who in senders:
            s2 = dict(base)
            s2["who"] = who
            s2["recipient"] = {"kind": rng.choice(["p2pkh", "p2wpkh", "p2sh", "p2wsh"]), "hash": hashlib.sha256(b"crcpt%d/%d" % (seed & 0xFFFFFFFF, who)).hexdigest()}
            s2["change"] = {"kind": "p2pkh", "hash": hashlib.sha256(b"cchg%d/%d" % (seed & 0xFFFFFFFF, who)).hexdigest()}
            s2["entropy"] = []
            sc["sends"].append(s2)
        horizon = 30000 * len(senders)
        sc["strategy"] = rng.choice([["random", 0.0003, 0.0003], ["random", 0.002, 0.002], ["random", 0.01, 0.01], ["hold", 2, horizon, 60000], ["hold", 3, horizon, 30000], ["pct", 2, horizon], ["rr", rng.choice([100, 2000, 20000])]])
    return sc


# --------------------------------------------------------------------------- execute
class _Clock:
    def __init__(self):
        self.t = 1700000000

    def time(self):
        self.t += 1
        return float(self.t)


def execute(scenario, tape=None, keep_events=False):
    mods()
    from sim import callersim

    # every run starts from a freshly imported package ("a new process")
    bits, (txm, rpc, ecmath, keys, utils) = callersim.fresh_bits(("bits.tx", "bits.rpc", "bits.ecmath", "bits.keys", "bits.utils"))
    sc = scenario
    concurrent = sc["stratum"] == "concurrent"
    out_tape = None
    res = RunResult()
    res.stratum = sc["stratum"]
    log = EventLog(keep=keep_events)
    faults, probes = res.faults, res.probes
    net = sc["net"]
    idents = [identity(i["kind"], [int(k, 16) for k in i["keys"]], i["m"], net) for i in sc["idents"]]
    ledger = Ledger()
    owners = {}
    for i, idn in enumerate(idents):
        owners[idn["spk"]] = i
    for f in sc["funding"]:
        ledger.add(f["txid"], f["vout"], f["sat"], idents[f["who"]]["spk"], f["who"])
    ledger.initial_total = ledger.total()
    node = SimNode(ledger, log, faults, sub_rng(sc["seed"], "node"))
    ent = SimEntropy(log, sub_rng(sc["seed"], "entropy"), max_draws_per_op=4096)
    ent.faults = faults
    viols = []
    nontrivial = False
    if not hasattr(rpc, "urlopen"):
        raise HarnessError("bits.rpc.urlopen seam not found")
    saved = (rpc.urlopen, rpc.time)
    rpc.urlopen = node.urlopen
    rpc.time = _Clock()
    vtime = VirtualTime()
    node.vtime = vtime
    vtime.__enter__()
    spent_fees = 0
    clear_sends = 0
    try:
        with EntropySeam(ent, [ecmath, keys, utils, txm]):
            pre = None
            if concurrent:
                pre = {}

                def make(si, s):
                    def body():
                        idn = idents[s["who"]]
                        r_arg, _, _ = recipient(s["recipient"], idents, net)
                        c_arg, _, _ = recipient(s["change"], idents, net)
                        try:
                            pre[si] = (
                                txm.send_tx(
                                    idn["sender_addr"],
                                    r_arg,
                                    change_addr=c_arg,
                                    sender_keys=list(idn["wifs"]),
                                    sighash_flag=s["flag"],
                                    send_fraction=s["fraction"],
                                    miner_fee=s["fee"],
                                    version=s["version"],
                                    locktime=s["locktime"],
                                    rpc_url="http://127.0.0.1:18443",
                                    rpc_user=node.user,
                                    rpc_password=node.password,
                                ),
                                None,
                            )
                        except Exception as e:  # noqa
                            pre[si] = (None, f"{type(e).__name__}: {e}"[:200])

                    return body

                ent.max_draws_per_op = 10**9
                from sim import sched as S_

                try:
                    sched, died = callersim.run_callers(
                        sub_rng(sc["seed"], "sched"), log, [make(si, s) for si, s in enumerate(sc["sends"])], sc["strategy"], [txm.__file__, utils.__file__, ecmath.__file__, keys.__file__], tape=tape, step_cap=8000000
                    )
                except S_.StepCapExceeded as e:
                    res.violations.append(Violation("nontermination", "concurrent callers", str(e), {"stratum": "concurrent"}).to_json())
                    res.digest = log.digest()
                    res.nontrivial = True
                    return res
                out_tape = sched.tape_out
                faults.hit("preemptive-switch", sched.switches)
                for ti, exc in enumerate(died):
                    if exc is not None:
                        pre[ti] = (None, f"caller thread died: {exc!r}")
                nontrivial = sched.switches >= 2
            for si, s in enumerate(sc["sends"]):
                idn = idents[s["who"]]
                r_arg, r_spk, r_kind = recipient(s["recipient"], idents, net)
                if s["change"]:
                    c_arg, c_spk, c_kind = recipient(s["change"], idents, net)
                else:
                    c_arg, c_spk, c_kind = None, idn["spk"], "none"
                reported = ledger.by_spk(idn["spk"])
                Tsat = sum(ledger.utxos[k]["sat"] for k in reported)
                f = Fraction(s["fraction"])
                lo = (f * Tsat).__floor__()
                hi = (f * Tsat).__ceil__()
                fee = s["fee"]
                feats = {
                    "sender": idn["kind"],
                    "legacy": idn["kind"] in LEGACY,
                    "flag": s["flag"],
                    "version": s["version"],
                    "locktime_nonzero": s["locktime"] != 0,
                    "recipient_kind": r_kind,
                    "change_given": s["change"] is not None,
                    "change_kind": c_kind,
                    "signed": s["signed"],
                    "n_reported": len(reported),
                    "any_vout_nonzero": any(k[1] != 0 for k in reported),
                    "inexact_amount": any(int(float(A_fmt(ledger.utxos[k]["sat"])) * 1e8) != ledger.utxos[k]["sat"] for k in reported) or int(float(A_fmt(Tsat)) * 1e8) != Tsat,
                    "stratum": sc["stratum"],
                }
                where = f"send={si} sender={idn['kind']}"
                # requested amount below the fee: the only right answers are a refusal or nothing;
                # a returned transaction is judged like any other (it cannot satisfy the invariants)
                insufficient = bool(reported) and hi - fee < 0
                if not reported or (not insufficient and lo - fee < 600):
                    log.add(si, "driver", "skip", "nothing to send")
                    probes.hit("send-skipped-insufficient-funds")
                    continue
                node.amount_format = s.get("amount_format", "fixed8")
                node.latency = s.get("latency", 0.05)
                vtime.advance(s.get("gap_before", 0.0))
                if s.get("clock_jump"):
                    vtime.wall_offset += s["clock_jump"]
                    faults.hit("wall-clock-jump")
                if s.get("amount_format") == "trimmed":
                    faults.hit("node-prints-trimmed-amounts")
                if pre is None:
                    node.order_mode = s["order"]
                    node.fault_plan = [s["rpc_fault"]] if s["rpc_fault"] else []
                    node.last_reported = None
                    node.reports.pop(idn["spk"], None)
                    ent.begin_op(s["entropy"])
                kwargs = dict(
                    change_addr=c_arg,
                    send_fraction=s["fraction"],
                    miner_fee=fee,
                    version=s["version"],
                    locktime=s["locktime"],
                    rpc_url="http://127.0.0.1:18443",
                    rpc_user=node.user,
                    rpc_password=node.password,
                )
                if s["signed"]:
                    kwargs.update(sender_keys=list(idn["wifs"]), sighash_flag=s["flag"])
                raw, exc = None, None
                try:
                    if pre is not None:
                        raw, exc = pre.get(si, (None, "caller produced no result"))
                    else:
                        raw = txm.send_tx(idn["sender_addr"], r_arg, **kwargs)
                except EntropyHang as e:
                    viols.append(Violation("nontermination", where, str(e), feats))
                    continue
                except HarnessError:
                    raise
                except Exception as e:
                    exc = f"{type(e).__name__}: {e}"[:200]
                log.add(si, "driver", "send_tx", ("ok", hashlib.sha256(raw).hexdigest()[:16]) if raw is not None else ("raised", exc))
                fault_fired = s["rpc_fault"] is not None
                if fault_fired:
                    nontrivial = True
                if raw is None:
                    if fault_fired:
                        probes.hit("raised-under-rpc-fault")
                    elif insufficient:
                        probes.hit("refused-amount-below-fee")
                    elif feats["legacy"] and s["signed"] and s["flag"] & 0x1F == 3 and _single_has_no_output(node, ledger, reported, s, lo, fee):
                        # legacy SIGHASH_SINGLE for an input without an output of the same index hashes
                        # to the constant 1 (a signature anyone can replay): refusing to sign is right
                        probes.hit("refused-legacy-single-without-matching-output")
                    else:
                        viols.append(Violation("refused", where + f" recipient={r_kind} change={'given' if s['change'] else 'none'}", exc, feats))
                    continue
                if fault_fired:
                    viols.append(Violation("tx-despite-rpc-failure", where, f"rpc fault {s['rpc_fault']} but a transaction was returned", feats))
                    continue
                # ---------------- oracle on the returned transaction
                try:
                    tx = T.parse_tx(bytes(raw))
                except T.TxError as e:
                    viols.append(Violation("malformed-tx", where, f"{e}; raw={bytes(raw).hex()[:200]}", feats))
                    continue
                ok = True

                def bad(clause, key, detail):
                    nonlocal ok
                    ok = False
                    viols.append(Violation(clause, key, detail, feats))

                rep = set(node.reports.get(idn["spk"], ()))
                ins = []
                for ti in tx["vin"]:
                    k = (ti["txid"][::-1].hex(), ti["vout"])
                    if k not in rep:
                        bad("foreign-input", where, f"input {k} was not reported for the sender")
                    elif k in ins:
                        bad("duplicate-input", where, f"input {k} twice")
                    ins.append(k)
                if not tx["vin"]:
                    bad("no-inputs", where, "")
                feats["n_inputs"] = len(ins)
                feats["multi_input"] = len(ins) >= 2
                feats["spends_vout_nonzero"] = any(k[1] != 0 for k in ins)
                feats["subset_selected"] = len(ins) < len(reported)
                feats["n_outputs"] = len(tx["vout"])
                if not ok:
                    continue
                sum_in = sum(ledger.utxos[k]["sat"] for k in ins)
                outs = tx["vout"]
                if len(outs) < 1:
                    bad("unexpected-outputs", where, "no outputs")
                    continue
                sent = outs[0]["value"] + fee
                if not (sent == Tsat if f == 1 else lo <= sent <= hi):
                    bad("recipient-amount", where, f"recipient gets {outs[0]['value']} + fee {fee} = {sent}; requested {float(f)} of {Tsat} = [{lo},{hi}]")
                c = sum_in - sent
                if len(outs) >= 2:
                    # one change output, or the change split over several: all to the change script, summing to c
                    csum = sum(o["value"] for o in outs[1:])
                    if csum != c:
                        bad("change-amount", where, f"inputs {sum_in} - sent {sent} = {c}, change output(s) {[o['value'] for o in outs[1:]]}")
                    for o in outs[1:]:
                        if o["spk"] != c_spk:
                            bad("change-script", where, f"change script {o['spk'].hex()} expected {c_spk.hex()}")
                            break
                else:
                    if c < 0:
                        bad("overspend", where, f"inputs {sum_in} < recipient+fee {sent}")
                    elif c >= DUST:
                        bad("value-leak", where, f"{c} satoshis above the dust threshold neither returned as change nor stated as fee")
                if outs[0]["spk"] != r_spk:
                    bad("recipient-script", where + f" recipient={r_kind}", f"output script {outs[0]['spk'].hex()} expected {r_spk.hex()}")
                if tx["version"] != s["version"] or tx["locktime"] != s["locktime"]:
                    # not a clause of the property (which constrains value flow and signature validity):
                    # a statistic; a wrong version / locktime in the *signed data* shows up as an invalid signature
                    probes.hit("stat-version-or-locktime-differs-from-request")
                if s["signed"]:
                    for i, k in enumerate(ins):
                        u = ledger.utxos[k]
                        try:
                            T.verify_input(tx, i, u["spk"], u["sat"], s["flag"])
                            probes.hit("input-verified-" + idn["kind"])
                        except T.Reject as e:
                            bad("invalid-signature", where + f" flag={s['flag']:#x}", f"input {i} of {len(ins)} ({k[0][:8]}:{k[1]}, {u['sat']} sat): {e}")
                            break
                else:
                    if any(ti["script_sig"] for ti in tx["vin"]) or (tx["witnesses"] and any(tx["witnesses"])):
                        probes.hit("stat-unsigned-tx-has-unlocking-data")
                if len(ins) >= 2 or feats["spends_vout_nonzero"] or s["flag"] != 1 or feats["inexact_amount"]:
                    nontrivial = True
                if len(ins) >= 2:
                    probes.hit("multi-input-send")
                if feats["spends_vout_nonzero"]:
                    probes.hit("spends-vout-nonzero")
                if len(outs) == 2:
                    probes.hit("change-output")
                elif c > 0:
                    probes.hit("sub-dust-change-dropped")
                if not ok:
                    continue
                probes.hit("send-valid" + ("" if s["signed"] else "-unsigned"))
                if not any(_where_ok(fd.get("where", {}), feats) for fd in open_findings()):
                    clear_sends += 1
                if not s["signed"] or pre is not None:
                    continue  # unsigned: nothing spends; concurrent callers: judged against the ledger they all scanned
                # ---------------- apply to the ledger
                nonwit = (
                    tx["version"].to_bytes(4, "little")
                    + T.cs(len(tx["vin"]))
                    + b"".join(t["txid"] + t["vout"].to_bytes(4, "little") + T.cs(len(t["script_sig"])) + t["script_sig"] + t["sequence"].to_bytes(4, "little") for t in tx["vin"])
                    + T.cs(len(outs))
                    + b"".join(T._ser_out(o) for o in outs)
                    + tx["locktime"].to_bytes(4, "little")
                )
                txid = A.sha256d(nonwit)[::-1].hex()
                for k in ins:
                    del ledger.utxos[k]
                for vo, o in enumerate(outs):
                    ledger.add(txid, vo, o["value"], o["spk"], owners.get(o["spk"], -1), height=node.height)
                spent_fees += sum_in - sum(o["value"] for o in outs)
                node.height += 1
                if ledger.total() + spent_fees != ledger.initial_total:
                    bad("ledger-conservation", where, f"ledger {ledger.total()} + fees {spent_fees} != initial {ledger.initial_total}")
    finally:
        vtime.__exit__()
        rpc.urlopen, rpc.time = saved
    seen = set()
    for v in viols:
        kk = (v.clause, v.key)
        if kk not in seen:
            seen.add(kk)
            res.violations.append(v.to_json())
    res.nontrivial = nontrivial
    res.sim_time = vtime.now
    res.digest = log.digest()
    res.tape = out_tape
    if out_tape is not None:
        res.stats["schedule"] = hashlib.sha256(repr(out_tape).encode()).hexdigest()[:16]
    res.steps = len(sc["sends"])
    res.stats["sends"] = len(sc["sends"])
    res.stats["clear"] = clear_sends
    res.stats["events"] = log.events if keep_events else None
    res.features = {"stratum": sc["stratum"]}
    return res


def _single_has_no_output(node, ledger, reported, s, lo, fee):
    """Would the selection (a prefix of the listing order) have more inputs than outputs?"""
    keys = list(reported)
    if s["order"] == "reversed":
        keys = keys[::-1]
    elif s["order"] == "shuffled":
        keys = node.reports.get(ledger.utxos[reported[0]]["spk"], keys)
    total = 0
    n_in = 0
    for k in keys:
        total += ledger.utxos[k]["sat"]
        n_in += 1
        if total >= lo:
            break
    n_out = 2 if total - lo >= DUST else 1
    return n_in > n_out or (n_in > 1 and total - lo in range(DUST - 1, DUST + 1))


def A_fmt(sat):
    return "%d.%08d" % (sat // 100000000, sat % 100000000)


def merge_stats(agg, st, final=False):
    agg["sends"] = agg.get("sends", 0) + st.get("sends", 0)
    agg["clear"] = agg.get("clear", 0) + st.get("clear", 0)
    agg.setdefault("schedules", set())
    if "schedule" in st:
        agg["schedules"].add(st["schedule"])
    agg["schedules"] |= st.get("schedules", set())


def finalise_stats(st):
    return {
        "send_operations": st.get("sends", 0),
        "clean_stratum_runs": None,
        "valid_sends_outside_every_open_finding": st.get("clear", 0),
        "valid_sends_outside_every_open_finding_note": "sends whose feature record satisfies no open known finding's where-clause and that passed all invariants: the part of the search open findings cannot shadow",
        "distinct_interleavings": len(st.get("schedules", ())) or None,
        "distinct_interleavings_measure": "distinct schedule tapes in the concurrent-callers stratum (request/response client, no scheduler in the other strata)",
    }


def selfcheck():
    assert A.selftest() and T.selftest() and EC.selftest()


def shrink_candidates(scenario, tape):
    import copy

    sends = scenario["sends"]
    if scenario["stratum"] == "concurrent":
        return
    for i in range(len(sends) - 1, -1, -1):
        if len(sends) > 1:
            sc = copy.deepcopy(scenario)
            sc["sends"].pop(i)
            yield sc, tape
    used = {s["who"] for s in sends}
    for i in range(len(scenario["funding"]) - 1, -1, -1):
        sc = copy.deepcopy(scenario)
        sc["funding"].pop(i)
        yield sc, tape
    for i, s in enumerate(sends):
        for key, val in (("change", None), ("flag", 1), ("version", 1), ("locktime", 0), ("order", "insertion"), ("entropy", []), ("fraction", 1.0), ("fee", 1000), ("amount_format", "fixed8"), ("latency", 0.05), ("gap_before", 0.0), ("clock_jump", 0.0)):
            if s.get(key, val) != val:
                sc = copy.deepcopy(scenario)
                sc["sends"][i][key] = val
                yield sc, tape
        if s["recipient"]["kind"] != "p2pkh":
            sc = copy.deepcopy(scenario)
            sc["sends"][i]["recipient"] = {"kind": "p2pkh", "hash": s["recipient"]["hash"]}
            yield sc, tape
    for i, f in enumerate(scenario["funding"]):
        if f["vout"] != 0:
            sc = copy.deepcopy(scenario)
            sc["funding"][i]["vout"] = 0
            yield sc, tape
        if f["sat"] != 100000000:
            sc = copy.deepcopy(scenario)
            sc["funding"][i]["sat"] = 100000000
            yield sc, tape


def sample(scenario):
    return {
        "stratum": scenario["stratum"],
        "net": scenario["net"],
        "idents": [{"kind": i["kind"], "m": i["m"], "n": len(i["keys"])} for i in scenario["idents"]],
        "funding": [{k: f[k] for k in ("who", "vout", "sat")} for f in scenario["funding"]],
        "sends": [{k: s[k] for k in ("who", "recipient", "change", "fraction", "fee", "version", "locktime", "flag", "signed", "order", "rpc_fault")} for s in scenario["sends"][:3]],
    }
