"""
C18 -- node message queue loses / misattributes nothing under any interleaving.

Real code under simulation: bits.p2p.Node (start, connect_peer, recv_loop,
handle_*, stop), PeerThread, recv_msg, msg_ser, parse_payload.
Stubs: sockets, network, peers, clock, thread scheduler.
"""
import hashlib
from collections import deque

from ref import codecs, frames
from sim import sched as S
from sim.core import Counters, EventLog, HarnessError, RunResult, Violation, sub_rng
from sim.netsim import Net, Peer, SimClock, SimHang
from sim.p2penv import P2PEnv, p2p_module

PROPERTY = "C18"
LEVEL = "exploration"
ENGINE = "netsim-thread"

TIERS = {
    "quick": {"runs": 16000, "batch": 200},
    "thorough": {"runs": 1000000, "batch": 1000},
}

MAGICS = {
    "mainnet": bytes.fromhex("f9beb4d9"),
    "testnet": bytes.fromhex("0b110907"),
    "regtest": bytes.fromhex("fabfb5da"),
}

ALWAYS_HANDLED = (b"version", b"ping")  # the property names the replies for these
STEP_CAP = 60000

COMPONENTS = {
    "real": [
        "bits.p2p.Node.start/connect_peer/recv_loop/handle_command/handle_*_command/stop",
        "bits.p2p.PeerThread (real threading.Thread, scheduled by baton passing)",
        "bits.p2p.recv_msg, msg_ser, version_payload, ping_payload, parse_payload and parsers",
    ],
    "stub": [
        "socket module (SimSocket, virtual-time blocking recv with timeouts)",
        "network and peers (scripted byte streams, seeded segmentation and delays)",
        "time module (virtual clock)",
        "thread scheduler (seeded choice at every line/opcode/IO yield point)",
    ],
}


# --------------------------------------------------------------------------- plan
def _mk_msg(rng, uid, kinds):
    kind = rng.choice(kinds)
    if kind == "ping":
        nonce = (uid << 32) | rng.getrandbits(32)
        if rng.random() < 0.05:
            nonce = (uid << 32) | 0xFFFFFFFF
        return {"cmd": "ping", "payload": codecs.ping(nonce).hex(), "plain_nonce": True}
    if kind == "version":
        ua = rng.choice([b"", b"/sim:%d/" % uid, b"/Satoshi:25.0.0/"])
        pl = codecs.version(
            protocol_version=rng.choice([70015, 70016, 60002]),
            services=rng.choice([0, 1, 9, 1033]),
            timestamp=1700000000 + uid,
            nonce=(uid << 32) | rng.getrandbits(32),
            user_agent=ua,
            start_height=rng.randrange(0, 900000),
            relay=rng.random() < 0.5,
            recv_port=rng.randrange(1, 65536),
            trans_port=rng.randrange(1, 65536),
        )
        return {"cmd": "version", "payload": pl.hex()}
    if kind == "verack":
        return {"cmd": "verack", "payload": ""}
    if kind == "inv":
        n = rng.choice([1, 1, 2, 3])
        items = [
            (
                rng.choice(sorted(codecs.INV_TYPES)),
                hashlib.sha256(b"inv%d/%d" % (uid, i)).digest(),
            )
            for i in range(n)
        ]
        return {"cmd": "inv", "payload": codecs.inv(items).hex()}
    if kind == "addr":
        n = rng.choice([1, 2])
        ents = [
            (
                1700000000 + uid,
                (1).to_bytes(8, "little"),
                b"\x00" * 10 + b"\xff\xff" + bytes([10, uid & 255, i, rng.randrange(256)]),
                rng.randrange(1, 65536),
            )
            for i in range(n)
        ]
        return {"cmd": "addr", "payload": codecs.addr(ents).hex()}
    if kind == "big-inv":
        # the standard 500-entry inventory (18 003 bytes): big enough for size-dependent code paths
        items = [(sorted(codecs.INV_TYPES)[i % 6], hashlib.sha256(b"biginv%d/%d" % (uid, i)).digest()) for i in range(500)]
        return {"cmd": "inv", "payload": codecs.inv(items).hex(), "big": True}
    if kind == "big-addr":
        ents = [(1700000000 + uid, (1).to_bytes(8, "little"), b"\x00" * 10 + b"\xff\xff" + bytes([10, uid & 255, i >> 8, i & 255]), 8333) for i in range(1000)]
        return {"cmd": "addr", "payload": codecs.addr(ents).hex(), "big": True}
    if kind == "getaddr":
        return {"cmd": "getaddr", "payload": ""}
    if kind == "feefilter":
        return {"cmd": "feefilter", "payload": codecs.feefilter((uid << 20) | rng.getrandbits(20)).hex()}
    if kind == "sendcmpct":
        return {"cmd": "sendcmpct", "payload": codecs.sendcmpct(rng.randrange(2), (uid << 8) | 1).hex()}
    if kind == "table-cmd":
        # the rest of the command table: the node has no handler for these, they are queued
        cmd = rng.choice(["getdata", "getblocks", "tx", "block", "block", "headers", "pong", "alert", "reply", "submitorder", "checkorder"])
        return {"cmd": cmd, "payload": (b"%s#%d" % (cmd.encode(), uid)).hex() if cmd != "pong" else codecs.ping((uid << 32) | 7).hex()}
    if kind == "unknown":
        return {"cmd": rng.choice(["foo", "wtxidrelay", "sendaddrv2x"]), "payload": (b"u%d" % uid).hex()}
    raise HarnessError(kind)


ALL_KINDS = ["ping", "ping", "version", "verack", "inv", "addr", "getaddr", "feefilter", "sendcmpct", "unknown", "table-cmd", "table-cmd"]
BIG_KINDS = ALL_KINDS * 2 + ["big-inv", "big-addr"]


def _segments(rng, frames_, mode, gap_mode, t0=None):
    """Cut the concatenated stream into segments and give each a delivery time.

    Gaps inside a frame stay below 1 s so the node's 5 s socket timeout can only
    fire at a frame boundary (a timeout in the middle of a frame is outside C18)."""
    stream = b"".join(frames_)
    bounds = []
    pos = 0
    for f in frames_:
        pos += len(f)
        bounds.append(pos)
    cuts = set()
    if mode == "frames":
        cuts.update(bounds)
    elif mode == "coalesce":
        cuts.add(len(stream))
    elif mode == "random":
        k = rng.randrange(1, 2 + len(stream) // 20)
        for _ in range(k):
            cuts.add(rng.randrange(1, len(stream) + 1))
    elif mode == "boundary":
        for b in bounds:
            cuts.add(max(1, min(len(stream), b + rng.choice([-1, 0, 1, 24, -24]))))
    elif mode == "header-split":
        pos = 0
        for f in frames_:
            cuts.add(pos + rng.randrange(1, 24))
            if len(f) > 24:
                cuts.add(pos + 24)
            pos += len(f)
    cuts.add(len(stream))
    cuts = sorted(c for c in cuts if 0 < c <= len(stream))
    segs = []
    t = rng.choice([0.0, 0.001, 0.5]) if t0 is None else t0
    prev = 0
    bset = set(bounds)
    for c in cuts:
        segs.append([round(t, 6), stream[prev:c].hex()])
        if c in bset:
            if gap_mode == "idle":
                t += rng.choice([0.0, 0.01, 5.5, 11.0])
            elif gap_mode == "very-long-idle":
                t += rng.choice([0.0, 5200.0, 6100.0])  # a peer silent for well over a thousand socket timeouts
            elif gap_mode == "tight":
                t += 0.0
            else:
                t += rng.choice([0.0, 0.001, 0.3, 2.0])
        else:
            t += rng.choice([0.0, 0.001, 0.2, 0.9])
        prev = c
    return segs


def plan(seed, tier="quick", index=0):
    rng = sub_rng(seed, "plan")
    stratum = rng.choice(["small", "small", "mixed", "mixed", "mixed", "mixed", "handled-only", "handled-only", "stop-at", "stop-at", "churn", "churn", "big", "big", "long", "many-peers"])
    if rng.random() < 0.0006:
        stratum = "flood"  # capacity limits: > 10 000 messages queued on one node (seconds per run, hence rare)
    network = rng.choice(sorted(MAGICS))
    magic = MAGICS[network]
    if stratum == "small":
        n_peers = 2
        counts = [1, 1]
        kinds_per_peer = [rng.choice([["ping"], ["ping"], ["inv"], ["version"], ["addr"], ["unknown"]]) for _ in range(2)]
    elif stratum == "handled-only":
        n_peers = rng.choice([2, 3])
        counts = [rng.choice([1, 2, 3]) for _ in range(n_peers)]
        kinds_per_peer = [["ping", "version", "verack"]] * n_peers
    elif stratum == "long":
        # long-lived connections: counters, thresholds and wrap-arounds that short runs never reach
        n_peers = rng.choice([2, 3])
        counts = [rng.choice([20, 33, 65, 130]) for _ in range(n_peers)]
        kinds_per_peer = [ALL_KINDS] * n_peers
    elif stratum == "flood":
        n_peers = 3
        counts = [rng.choice([3700, 4400]) for _ in range(n_peers)]
        kinds_per_peer = [["getaddr", "feefilter", "sendcmpct", "getaddr", "table-cmd"]] * n_peers  # all queued: > 11 000 entries
    elif stratum == "many-peers":
        n_peers = rng.choice([6, 8, 11, 17])
        counts = [rng.choice([1, 1, 2]) for _ in range(n_peers)]
        kinds_per_peer = [ALL_KINDS] * n_peers
    else:
        n_peers = rng.choice([2, 2, 3, 3, 4])
        counts = [rng.choice([1, 2, 3, 4]) for _ in range(n_peers)]
        kinds_per_peer = [BIG_KINDS if stratum == "big" else ALL_KINDS] * n_peers
    uid = 1
    peers = []
    sync = rng.random() < 0.6  # all peers' data is there at once: threads really compete
    for p in range(n_peers):
        msgs = []
        for _ in range(counts[p]):
            msgs.append(_mk_msg(rng, uid, kinds_per_peer[p]))
            uid += 1
        fr = [frames.frame(magic, m["cmd"], bytes.fromhex(m["payload"])) for m in msgs]
        mode = "frames" if stratum == "small" and rng.random() < 0.7 else rng.choice(
            ["frames", "coalesce", "random", "boundary", "header-split"]
        )
        if stratum == "flood":
            mode = "coalesce"
        gap = "tight" if (stratum == "small" or sync) else rng.choice(["tight", "normal", "idle"])
        if stratum in ("mixed", "handled-only") and not sync and rng.random() < 0.03:
            gap = "very-long-idle"
        peers.append(
            {
                "port": 18000 + p,
                "msgs": msgs,
                "cut_mode": mode,
                "gap": gap,
                "t0": 0.0 if sync else rng.choice([0.0, 0.001, 0.5]),
                "segments": [],
            }
        )
    pings = [m for p in peers for m in p["msgs"] if m.get("plain_nonce")]
    for special in (0, 2**64 - 1):
        if pings and rng.random() < 0.25:
            m = pings.pop(rng.randrange(len(pings)))
            m["payload"] = codecs.ping(special).hex()  # boundary nonces, each used at most once per scenario
    for pd in peers:
        fr = [frames.frame(magic, m["cmd"], bytes.fromhex(m["payload"])) for m in pd["msgs"]]
        pd["segments"] = _segments(sub_rng(seed, "seg%d" % pd["port"]), fr, pd["cut_mode"], pd["gap"], pd["t0"])
    gran = rng.choice(["io", "line", "line", "line", "line", "opcode"])
    if stratum in ("long", "many-peers"):
        gran = rng.choice(["io", "line", "line"])
    if stratum == "flood":
        gran = "io"
    if any(pd["gap"] == "very-long-idle" for pd in peers):
        gran = rng.choice(["io", "line"])  # thousands of timeouts: keep the step count in bounds
    nmsgs = sum(counts)
    scale = {"io": 0.25, "line": 1.0, "opcode": 5.0}[gran]
    horizon = int((15 * n_peers + 18 * nmsgs) * scale) + 2
    pdiv = 6.0 if gran == "opcode" else 1.0
    strat = rng.choice(
        [
            ["random", 0.05 / pdiv, 0.05 / pdiv],
            ["random", 0.15 / pdiv, 0.01 / pdiv],
            ["random", 0.25 / pdiv, 0.01 / pdiv],
            ["random", 0.5 / pdiv, 0.02 / pdiv],
            ["pct", 1, horizon],
            ["pct", 2, horizon],
            ["pct", 3, horizon],
            ["hold", 1, horizon, int(60 * scale) + 1],
            ["hold", 2, horizon, int(60 * scale) + 1],
            ["hold", 3, horizon, int(150 * scale) + 1],
            ["hold", 0, horizon, int(60 * scale) + 1, 0.15],
            ["hold", 0, horizon, int(60 * scale) + 1, 0.3],
            ["hold", 0, horizon, int(150 * scale) + 1, 0.3],
            ["hold", 0, horizon, int(150 * scale) + 1, 0.5],
            ["hold", 1, horizon, int(150 * scale) + 1, 0.5],
            ["rr", rng.choice([1, 3, 7, 20])],
            ["rtb"],
        ]
    )
    sc = {
        "property": PROPERTY,
        "seed": seed,
        "stratum": stratum,
        "network": network,
        "epoch": 1600000000 + rng.randrange(0, 400000000),
        "strategy": strat,
        "granularity": gran,
        "short_read_rate": rng.choice([0.0, 0.0, 0.1, 0.4]),
        "stop": {"mode": "quiescent"},
        "peers": peers,
        # the wall clock may step while the node runs (only time.time() moves; timeouts are monotonic)
        "clock_jumps": [[round(rng.random() * 3.0, 3), rng.choice([3600.0, -3600.0, -86400.0, 7.0])] for _ in range(rng.choice([0, 0, 0, 1, 2]))],
    }
    if stratum == "stop-at":
        horizon = max(s[0] for p in peers for s in p["segments"]) + 0.5
        sc["stop"] = {"mode": "at", "t": round(rng.random() * horizon, 4)}
    if rng.random() < 0.12:
        # an earlier Node object lived (and was stopped) in the same process before this one
        pm = _mk_msg(rng, 800, ["inv", "addr", "table-cmd"])
        sc["prior_node"] = {"port": 18800, "msgs": [pm], "segments": [[0.0, frames.frame(magic, pm["cmd"], bytes.fromhex(pm["payload"])).hex()]]}
    if stratum == "churn":
        # one peer hangs up after its last message; later a new peer is connected while the
        # others are (possibly) still receiving
        hang = rng.randrange(n_peers) if rng.random() < 0.3 else rng.randrange(max(1, n_peers - 1))
        peers[hang]["hangup"] = True
        t_hang = max([sg[0] for sg in peers[hang]["segments"]] or [0.0])
        late_msgs = [_mk_msg(rng, 900 + k, ALL_KINDS) for k in range(rng.choice([1, 2, 3]))]
        fr = [frames.frame(magic, m["cmd"], bytes.fromhex(m["payload"])) for m in late_msgs]
        sc["late_peer"] = {
            "port": 18900,
            "msgs": late_msgs,
            "at": round(t_hang + rng.choice([0.001, 0.5, 6.0]), 4),
            "segments": _segments(sub_rng(seed, "late"), fr, rng.choice(["frames", "random", "header-split"]), "tight", 0.0),
        }
        # keep the others busy after the late peer arrives
        for pi, pd in enumerate(peers):
            if pi != hang and rng.random() < 0.6:
                extra = _mk_msg(rng, 950 + pi, ALL_KINDS)
                pd["msgs"].append(extra)
                f2 = frames.frame(magic, extra["cmd"], bytes.fromhex(extra["payload"]))
                last = max([sg[0] for sg in pd["segments"]] or [0.0])
                pd["segments"].append([round(max(last, sc["late_peer"]["at"]) + rng.choice([0.0, 0.01, 0.4]), 6), f2.hex()])
    return sc


# --------------------------------------------------------------------------- instrumentation
class LogDeque(deque):
    """deque that reports who inserts / removes (for the interleaving measure and
    the foreign-removal probe; verdicts do not depend on it)."""

    _ctx = None  # instances made by the code under test (copy(), type(q)(...)) are unbound until adopted

    def _bind(self, ctx):
        self._ctx = ctx
        self._owner = {}
        self._keep = []
        return self

    def copy(self):
        c = LogDeque(self, self.maxlen)
        if self._ctx is not None:
            c._bind(self._ctx)
            c._owner = dict(self._owner)
            c._keep = list(self._keep)
            self._ctx.qstep(self._ctx.sched.me(), "copy")
        return c

    __copy__ = copy

    def _ins(self, item):
        if self._ctx is None:
            return
        tid = self._ctx.sched.me()
        self._owner[id(item)] = tid
        self._keep.append(item)
        self._ctx.qstep(tid, "ins")

    def _rem(self, item):
        if self._ctx is None:
            return
        tid = self._ctx.sched.me()
        self._ctx.qstep(tid, "rem")
        own = self._owner.get(id(item))
        if own is not None and own != tid:
            self._ctx.probes.hit("queue-entry-removed-by-other-thread")

    def append(self, x):
        self._ins(x)
        return deque.append(self, x)

    def appendleft(self, x):
        self._ins(x)
        return deque.appendleft(self, x)

    def pop(self):
        x = deque.pop(self)
        self._rem(x)
        return x

    def popleft(self):
        x = deque.popleft(self)
        self._rem(x)
        return x

    def remove(self, x):
        self._rem(x)
        return deque.remove(self, x)


class LogList(list):
    def _bind(self, ctx):
        self._ctx = ctx
        return self

    def __contains__(self, x):
        r = list.__contains__(self, x)
        self._ctx.qstep(self._ctx.sched.me(), "test", r)
        return r


class Ctx:
    def __init__(self, sched, probes):
        self.sched = sched
        self.probes = probes
        self.qsteps = []
        self.detail = []

    def qstep(self, tid, op, extra=None):
        self.qsteps.append((tid, op))
        self.detail.append((tid, op, extra))
        self.sched.mark_interesting()
        self.sched.log.add(self.sched.now, tid, "q", op)


# --------------------------------------------------------------------------- execute
def execute(scenario, tape=None, keep_events=False):
    p2p = p2p_module(fresh=True)
    seed = scenario["seed"]
    res = RunResult()
    res.stratum = scenario["stratum"]
    log = EventLog(keep=keep_events)
    faults = res.faults
    probes = res.probes
    magic = MAGICS[scenario["network"]]
    sched = S.Sched(
        rng=sub_rng(seed, "sched"),
        log=log,
        strategy=tuple(scenario["strategy"]),
        granularity=scenario["granularity"],
        tape=tape,
        step_cap=STEP_CAP
        + 150000 * sum(1 for pd in scenario["peers"] for m in pd["msgs"] if m.get("big"))
        + 400 * sum(len(pd["msgs"]) for pd in scenario["peers"])
        + 100 * int(sum(max([sg[0] for sg in pd["segments"]] or [0.0]) for pd in scenario["peers"]) / 5.0 + 1) * len(scenario["peers"]),
        trace_files=(p2p.__file__,),
        probes=probes,
    )
    peers = []
    for i, pd in enumerate(scenario["peers"]):
        segs = [(t, bytes.fromhex(h)) for t, h in pd["segments"]]
        peers.append(Peer(i, f"10.0.0.{i + 1}", pd["port"], segs, close_after=bool(pd.get("hangup"))))
    prior = scenario.get("prior_node")
    prior_peer = None
    if prior:
        prior_peer = Peer(-1, "10.0.7.1", prior["port"], [(t, bytes.fromhex(h)) for t, h in prior["segments"]])
    late = scenario.get("late_peer")
    if late:
        peers.append(Peer(len(peers), "10.0.0.99", late["port"], [(t, bytes.fromhex(h)) for t, h in late["segments"]]))
    net = Net(sched, peers + ([prior_peer] if prior_peer else []), faults, sub_rng(seed, "net"), short_read_rate=scenario["short_read_rate"])
    clock = SimClock(sched, scenario["epoch"])
    ctx = Ctx(sched, probes)
    for jt, jd in scenario.get("clock_jumps", []):

        def _jump(jd=jd):
            clock.offset += jd
            faults.hit("wall-clock-jump")
            log.add(sched.now, "clock", "jump", jd)

        sched.at(jt, _jump, kind="timeout")
    net.send_hook = lambda sock, data: ctx.qstep(sched.me(), "send")
    sched.register_main()
    node = None
    timeouts_before_stop = 0
    aborted = None
    still_running = 0
    with P2PEnv(sched, net, clock, scenario["network"]):
        t_base = 0.0
        try:
            if prior_peer:
                n0 = p2p.Node(seeds=[f"{prior_peer.host}:{prior_peer.port}"])
                n0.start()
                sched.block(sched.quiescent, None, what="driver-prior-quiescent")
                n0.stop()
                sched.block(sched.others_done, sched.now + 60.0, what="driver-prior-join")
                faults.hit("earlier-node-in-same-process")
                t_base = sched.now
                # the main scenario's delivery times are relative to the connects that follow
            node = p2p.Node(seeds=[f"{p.host}:{p.port}" for p in peers if not (late and p is peers[-1])])
            q = getattr(node, "_msg_queue", None)
            if type(q) is deque:
                node._msg_queue = LogDeque(q, q.maxlen)._bind(ctx)  # same contents, same capacity
            r = getattr(node, "_registered_commands_to_handle", None)
            if type(r) is list:
                node._registered_commands_to_handle = LogList(r)._bind(ctx)
            node.start()
            if late:
                sched.block(lambda: False, t_base + late["at"], what="driver-wait-late-peer")
                faults.hit("peer-connected-while-others-receive")
                node.connect_peer(peers[-1].host, peers[-1].port)
            if scenario["stop"]["mode"] == "at":
                sched.block(lambda: False, t_base + scenario["stop"]["t"], what="driver-wait")
                faults.hit("stop-while-in-flight")
            else:
                sched.block(sched.quiescent, None, what="driver-quiescent")
            log.add(sched.now, 0, "stop", "")
            timeouts_before_stop = faults.get("idle-timeout", 0)
            node.stop()
            ok = sched.block(sched.others_done, sched.now + 120.0, what="driver-join")
            if not ok:
                still_running = sum(1 for t in sched.order if sched.threads[t].status != "done") - 1
                sched.abort("threads still running 120 s after stop()")
                raise S.SimAbort()
        except S.SimAbort:
            aborted = sched.abort_reason or "abort"
        except SimHang as e:
            aborted = f"hang: {e}"
            sched.abort(aborted)
        finally:
            if sched.aborting:
                sched.abort_all_from_driver()
    # real joins (threads are finished or unwinding)
    for tid in sched.order[1:]:
        th = sched.threads[tid].thread
        S._orig_thread_join(th, 5.0)
        if th.is_alive():
            raise HarnessError("simulated thread did not terminate")
    res.sim_time = sched.now
    res.steps = sched.steps
    res.tape = sched.tape_out
    if aborted and (aborted == "step-cap" or aborted.startswith("deadlock")):
        # no terminating execution of <= 16 messages needs 60000 scheduling steps: the node
        # spins, or all its threads wait on each other for good
        res.violations.append(Violation("no-progress", "node", f"{aborted} after {sched.steps} steps (typical run: a few hundred)").to_json())
        res.digest = log.digest()
        res.nontrivial = True
        return res
    if aborted and not aborted.startswith("threads still running"):
        raise HarnessError(f"run aborted: {aborted}")
    if still_running:
        probes.hit("threads-not-stopped")

    # ---------------------------------------------------------------- oracle
    viols = []
    handled = set(ALWAYS_HANDLED)
    reg = getattr(node, "_registered_commands_to_handle", None)
    if reg is not None:
        handled |= set(c if isinstance(c, bytes) else str(c).encode() for c in list(reg))
    nonce_owner = {}
    sent_frames = []
    for i, pd in enumerate(scenario["peers"] + ([late] if late else [])):
        fl = []
        off = 0
        for j, m in enumerate(pd["msgs"]):
            payload = bytes.fromhex(m["payload"])
            off += 24 + len(payload)
            fl.append((m["cmd"].encode(), payload, off, j))
            if m["cmd"] == "ping":
                nonce_owner[payload] = (i, j)
        sent_frames.append(fl)

    # a receive thread that died took its unread messages with it: report it
    hung = sum(1 for pd in scenario["peers"] if pd.get("hangup"))
    for tid in sched.order[1:]:
        st = sched.threads[tid]
        if st.died is not None:
            if hung and isinstance(st.died, (ConnectionError, EOFError)):
                hung -= 1  # the peer hung up: its receive thread ends with the connection error, by design
                probes.hit("receive-thread-ended-after-peer-hangup")
                continue
            viols.append(Violation("receive-thread-died", f"thread={tid} exc={type(st.died).__name__}", repr(st.died)))

    queue = _queue_entries(node)
    for i, peer in enumerate(peers):
        sock = peer.sock
        if sock is None:
            raise HarnessError("peer never connected")
        consumed = sock.consumed
        R = [f for f in sent_frames[i] if f[2] <= consumed]
        # (a) replies on this peer's socket
        out = b"".join(d for _, _, _, d in sock.sent)
        parsed = frames.parse_stream(out, magic)
        if any(x[0] == "error" for x in parsed):
            viols.append(Violation("reply-malformed", f"peer={i}", repr(parsed[-1])))
        allsent = [(x[2].rstrip(b"\x00"), x[3]) for x in parsed if x[0] == "msg"]
        # the property speaks about veracks and pongs; whatever else the node chooses to send
        # (its own version, getaddr, sendheaders, ...) is not constrained by it
        got = [m_ for m_ in allsent if m_[0] in (b"verack", b"pong")]
        if len(allsent) - len(got) > 1:
            probes.hit("stat-node-sent-other-messages", len(allsent) - len(got) - 1)
        exp = []
        for cmd, payload, _, j in R:
            if cmd == b"version":
                exp.append((b"verack", b""))
            elif cmd == b"ping":
                exp.append((b"pong", payload))
        if got != exp:
            viols.extend(_diff_replies(i, got, exp, nonce_owner))
        # (b) queue entries attributed to this peer
        qp = [e for e in queue if e[0] == i]
        expq = []
        for cmd, payload, _, j in R:
            if cmd not in handled:
                expq.append((i, cmd, p2p.parse_payload(cmd, payload)))
        if qp != expq:
            viols.extend(_diff_queue(i, qp, expq, handled, scenario, p2p))
    known_peers = set(range(len(peers)))
    for e in queue:
        if e[0] not in known_peers:
            viols.append(Violation("misattributed", f"peer={e[0]!r} cmd={e[1]!r}", "queue entry for a peer that does not exist"))

    # dedupe by (clause, key)
    seen = set()
    for v in viols:
        k = (v.clause, v.key)
        if k not in seen:
            seen.add(k)
            res.violations.append(v.to_json())

    # reach measures
    sig = tuple(ctx.qsteps)
    res.stats["interleaving"] = hashlib.sha256(repr(sig).encode()).hexdigest()[:16]
    wsig = [x for x in sig if x[0] != 0]
    changes = sum(1 for a, b in zip(wsig, wsig[1:]) if a[0] != b[0])
    res.stats["q_thread_changes"] = changes
    faults.hit("preemptive-switch", sched.switches)
    if changes >= 2:
        probes.hit("queue-steps-interleaved")
    # was some thread's insert..remove window entered by another thread's insert?
    last_ins = {}
    for pos, (tid, op, extra) in enumerate(ctx.detail):
        if op == "ins":
            last_ins[tid] = pos
        elif op == "rem" and tid in last_ins:
            lo = last_ins.pop(tid)
            if any(t != tid and o == "ins" for t, o, _ in ctx.detail[lo + 1 : pos]):
                probes.hit("insert-inside-other-threads-insert-remove-window")
    if scenario["stratum"] == "small":
        # canonical merge of the receive threads' steps: threads relabelled by first appearance
        ws = [x for x in sig if x[0] != 0]
        order = []
        for t, _ in ws:
            if t not in order:
                order.append(t)
        per = {t: tuple(o for tt, o in ws if tt == t) for t in order}
        shape = tuple(sorted(per.values()))
        merge = tuple((tuple(sorted(per.values())).index(per[t]) if len(set(per.values())) == len(per) else order.index(t), o) for t, o in ws)
        res.stats["small_sig"] = repr((shape, merge))
    faults["idle-timeout-at-shutdown"] = faults.get("idle-timeout", 0) - timeouts_before_stop
    faults["idle-timeout"] = timeouts_before_stop
    res.nontrivial = changes >= 2 or timeouts_before_stop > 0 or faults.get("short-read", 0) > 0
    res.digest = log.digest()
    res.stats["events"] = log.events if keep_events else None
    res.features = {"stratum": scenario["stratum"]}
    return res


def _queue_entries(node):
    """The node's message queue as a list of (peer_no, command bytes, parsed payload),
    tolerant of the container (deque, list, queue.Queue) and of the entry shape (tuple,
    list, mapping or object with peer/command/payload fields)."""
    q = getattr(node, "_msg_queue", None)
    if q is None:
        q = getattr(node, "msg_queue", None)
    if q is None:
        raise HarnessError("the node has no _msg_queue attribute to observe")
    if hasattr(q, "queue") and not hasattr(q, "__iter__"):
        q = q.queue
    out = []
    for e in list(q):
        if isinstance(e, (tuple, list)) and len(e) == 3:
            peer, cmd, payload = e
        elif isinstance(e, dict):
            peer = e.get("peer_no", e.get("peer"))
            cmd, payload = e.get("command"), e.get("payload")
        elif hasattr(e, "command"):
            peer = getattr(e, "peer_no", getattr(e, "peer", None))
            cmd, payload = e.command, getattr(e, "payload", None)
        else:
            raise HarnessError(f"unexpected queue entry shape: {e!r}")
        if isinstance(cmd, str):
            cmd = cmd.encode()
        if isinstance(cmd, (bytes, bytearray)):
            cmd = bytes(cmd).rstrip(b"\x00")
        out.append((peer, cmd, payload))
    return out


def _diff_replies(i, got, exp, nonce_owner):
    out = []
    g = list(got)
    e = list(exp)
    for item in exp:
        if item in g:
            g.remove(item)
        else:
            name = "verack" if item[0] == b"verack" else f"pong nonce={item[1].hex()}"
            out.append(Violation("reply-missing", f"peer={i} {name}", f"got={got!r}"))
    missing_pong = any(v.clause == "reply-missing" and "pong" in v.key for v in out)
    for item in g:
        if item[0] == b"pong" and item[1] in nonce_owner and nonce_owner[item[1]][0] != i:
            out.append(Violation("reply-wrong-peer", f"peer={i} pong nonce={item[1].hex()}", f"belongs to peer {nonce_owner[item[1]][0]}"))
        elif item[0] == b"pong" and item[1] not in nonce_owner:
            if missing_pong:
                out.append(Violation("reply-wrong-nonce", f"peer={i} pong nonce={item[1].hex()}", ""))
            # (an unsolicited pong while every ping was answered correctly is not constrained by the property)
        elif item in exp:
            out.append(Violation("duplicate", f"peer={i} reply {item[0].decode()}", f"got={got!r}"))
        # (an unsolicited verack - no version was received for it - is not constrained either)
    if not out and [x for x in got if x in exp] != exp:
        out.append(Violation("order", f"peer={i} replies", f"got={got!r} exp={exp!r}"))
    return out


def _diff_queue(i, qp, expq, handled, scenario, p2p):
    out = []
    g = list(qp)
    for item in expq:
        if item in g:
            g.remove(item)
        else:
            out.append(Violation("lost-unhandled-message", f"peer={i} cmd={item[1].decode()}", f"expected {item!r}"))
    for item in g:
        cmd = item[1]
        if cmd in handled:
            out.append(Violation("handled-left-in-queue", f"peer={i} cmd={cmd.decode() if isinstance(cmd, bytes) else cmd}", repr(item)[:200]))
        elif item in expq:
            out.append(Violation("duplicate", f"peer={i} cmd={cmd.decode()}", repr(item)[:200]))
        else:
            # does the content belong to a message of another peer?
            owner = None
            for k, pd in enumerate(scenario["peers"] + ([scenario["late_peer"]] if scenario.get("late_peer") else [])):
                for m in pd["msgs"]:
                    if m["cmd"].encode() == cmd and p2p.parse_payload(cmd, bytes.fromhex(m["payload"])) == item[2] and k != i:
                        owner = k
            if owner is not None:
                out.append(Violation("misattributed", f"peer={i} cmd={cmd.decode()}", f"sent by peer {owner}"))
            else:
                out.append(Violation("queue-unexpected-entry", f"peer={i} cmd={cmd!r}", repr(item)[:200]))
    if not out:
        out.append(Violation("order", f"peer={i} queue", f"got={[e[1] for e in qp]!r} exp={[e[1] for e in expq]!r}"))
    return out


# --------------------------------------------------------------------------- minimise
def shrink_candidates(scenario, tape):
    """Yield (scenario', tape') candidates, simplest ideas first."""
    import copy

    if scenario.get("late_peer"):
        sc = copy.deepcopy(scenario)
        del sc["late_peer"]
        for pd in sc["peers"]:
            pd.pop("hangup", None)
        yield sc, tape
    # drop a whole peer (the last one, so peer numbers of the others stay)
    if len(scenario["peers"]) > 1 and not scenario.get("late_peer"):
        sc = copy.deepcopy(scenario)
        sc["peers"].pop()
        yield sc, tape
    # drop one message of a peer
    for pi, pd in enumerate(scenario["peers"]):
        if len(pd["msgs"]) > 1:
            for mi in range(len(pd["msgs"]) - 1, -1, -1):
                sc = copy.deepcopy(scenario)
                sc["peers"][pi]["msgs"].pop(mi)
                _resegment(sc, pi)
                yield sc, tape
    if scenario["stop"]["mode"] != "quiescent":
        sc = copy.deepcopy(scenario)
        sc["stop"] = {"mode": "quiescent"}
        yield sc, tape
    # coarsen fragmentation
    for pi, pd in enumerate(scenario["peers"]):
        if len(pd["segments"]) > len(pd["msgs"]):
            sc = copy.deepcopy(scenario)
            _resegment(sc, pi)
            yield sc, tape
    if scenario.get("short_read_rate"):
        sc = copy.deepcopy(scenario)
        sc["short_read_rate"] = 0.0
        yield sc, tape


def _resegment(sc, pi):
    magic = MAGICS[sc["network"]]
    pd = sc["peers"][pi]
    t = 0.0
    segs = []
    for m in pd["msgs"]:
        segs.append([t, frames.frame(magic, m["cmd"], bytes.fromhex(m["payload"])).hex()])
    pd["segments"] = segs
    pd["cut_mode"] = "frames"


def merge_stats(agg, st, final=False):
    agg.setdefault("interleavings", set())
    agg.setdefault("small_sigs", set())
    agg.setdefault("q_thread_changes", 0)
    if "interleaving" in st:  # one run
        agg["interleavings"].add(st["interleaving"])
        if st.get("small_sig"):
            agg["small_sigs"].add(st["small_sig"])
        agg["q_thread_changes"] += st.get("q_thread_changes", 0)
    else:
        agg["interleavings"] |= st.get("interleavings", set())
        agg["small_sigs"] |= st.get("small_sigs", set())
        agg["q_thread_changes"] += st.get("q_thread_changes", 0)


def finalise_stats(st):
    return {
        "distinct_interleavings": len(st.get("interleavings", ())),
        "distinct_interleavings_measure": "distinct sequences of (thread, step) over the steps queue-insert / handled-command-test / queue-removal / handler-send, all scopes",
        "small_scope_distinct_merges": len(st.get("small_sigs", ())),
        "small_scope_coverage": _small_cov(st.get("small_sigs", ())),
        "small_scope_note": "stratum 'small' = 2 peers x 1 message; per shape (the two threads' step sequences) the number of distinct merges of those steps reached / the number that exist (binomial); sampled by seeded schedules, not enumerated",
        "queue_step_thread_changes_total": st.get("q_thread_changes", 0),
    }


def _small_cov(sigs):
    import ast
    from math import comb

    by = {}
    for sg in sorted(sigs):
        shape, merge = ast.literal_eval(sg)
        by.setdefault(shape, set()).add(merge)
    out = {}
    for shape in sorted(by):
        if len(shape) != 2:
            continue
        a, b = len(shape[0]), len(shape[1])
        possible = comb(a + b, a) if shape[0] != shape[1] else comb(a + b, a) // 2 + (comb(a + b, a) % 2)
        out[" | ".join(",".join(x) for x in shape)] = f"{len(by[shape])}/{possible}"
    return out


RULE = (
    "one evaluation = one seeded scenario (2-4 scripted peers, 1-4 unique messages each, seeded segmentation/delays, "
    "seeded scheduler strategy and granularity) executed once under the baton scheduler; non-trivial = at least one thread "
    "change between two queue/handler steps, or an idle timeout or short read fired; distinct = distinct SHA-256 of the full event log"
)
HAS_VIRTUAL_TIME = True
ASSUMPTIONS = [
    "CPython C-level container operations (deque.append/pop, list.__contains__) are atomic; pre-emption is at line or bytecode granularity inside bits/p2p.py and at every simulated socket call",
    "peers are scripted byte streams over an in-order reliable stream transport; no corruption / EOF (those are C17)",
    "segments inside one frame arrive less than 1 s apart, so the 5 s socket timeout fires only between frames",
    "version payloads carry ASCII address fields as the library's own builder produces them",
    "reference frame parser and payload builders in /verif/ref are correct (pinned to fixed points by the self-test)",
]


def selfcheck():
    assert frames.selftest()


def sample(scenario):
    return {
        "stratum": scenario["stratum"],
        "strategy": scenario["strategy"],
        "granularity": scenario["granularity"],
        "stop": scenario["stop"],
        "peers": [
            {"msgs": [m["cmd"] for m in p["msgs"]], "segments": [[t, len(h) // 2] for t, h in p["segments"]]}
            for p in scenario["peers"]
        ],
    }
