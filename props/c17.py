"""
C17 -- P2P wire: framing survives fragmentation, detects corruption, terminates on
EOF; payload codecs invert.

Real code under simulation: bits.p2p.recv_msg, msg_ser, *_payload builders,
parse_*_payload, parse_payload, set_magic_start_bytes, version_payload's clock read.
Stubs: socket (SimSocket), network (segmentation, delays, bit flips, truncation),
peer, clock.
"""
import hashlib

from ref import codecs, frames
from sim import sched as S
from sim.core import Counters, EventLog, HarnessError, RunResult, Violation, sub_rng
from sim.netsim import Net, Peer, SimClock, SimHang, SimSocket
from sim.p2penv import P2PEnv, p2p_module

PROPERTY = "C17"
LEVEL = "exploration"
ENGINE = "netsim-stream"
HAS_VIRTUAL_TIME = True

TIERS = {
    "quick": {"runs": 150000, "batch": 1500},
    "thorough": {"runs": 3000000, "batch": 5000},
}

MAGICS = {
    "mainnet": bytes.fromhex("f9beb4d9"),
    "testnet": bytes.fromhex("0b110907"),
    "regtest": bytes.fromhex("fabfb5da"),
}

COMMAND_TABLE = [
    "version", "verack", "addr", "inv", "getdata", "getblocks", "getheaders", "tx", "block",
    "headers", "getaddr", "submitorder", "checkorder", "reply", "alert", "ping", "pong",
]

COMPONENTS = {
    "real": [
        "bits.p2p.recv_msg (both accumulate-until-length loops and the sanity checks)",
        "bits.p2p.msg_ser",
        "bits.p2p.version_payload / ping_payload / getheaders_payload / inv_payload + inventory / addr_payload + network_ip_addr",
        "bits.p2p.parse_payload and parse_version/ping/getheaders/inv/addr_payload",
    ],
    "stub": [
        "thread scheduler for the concurrent stratum (2-3 simulated receiver threads on separate connections); socket-object identity (optionally recycled for the connection after a dead one)",
        "socket (SimSocket: recv returns 1..min(n, arrived) bytes, b'' after peer close)",
        "network (seeded cuts independent of frame boundaries, seeded delivery times, single bit flip, truncation + close, foreign magic)",
        "peer (scripted byte stream)",
        "time module (virtual clock; version timestamp)",
    ],
}

RULE = (
    "one evaluation = one seeded stream of 1-3 back-to-back frames delivered through a seeded segmentation (plus seeded short reads) with at most one "
    "injected fault (bit flip / truncation+close / foreign magic), read back with recv_msg call by call and compared with the reference parser on the same faulty "
    "byte stream; codec runs additionally compare parse_payload(...) with the field values the payload was built from. non-trivial = at least one frame was split "
    "across recv calls or coalesced with another, or a fault was injected; distinct = distinct SHA-256 of the event log"
)
ASSUMPTIONS = [
    "reference frame parser in /verif/ref/frames.py is correct (pinned to the mainnet verack frame and hand-made malformed frames)",
    "the socket under test has no timeout (timeouts in the middle of a frame are outside the property's quantifier)",
    "a reader that calls recv more than 8 times after the peer closed, or more than 4*len(stream)+64 times in total, is counted as not terminating",
    "only payloads built by the library's own builders count for the codec clause",
]

SIZES = [0, 0, 1, 8, 23, 24, 25, 36, 80, 252, 253, 1000, 8000, 65535, 65536, 70000]
# sizes around the block / chunk sizes implementations like to use (2^k and 2^k +- 1)
EDGE_SIZES = [55, 56, 63, 64, 65, 119, 127, 128, 129, 255, 256, 257, 511, 512, 513, 1023, 1024, 1025, 4095, 4096, 4097, 8191, 8192, 8193, 16383, 16384, 16385, 32767, 32768, 32769, 65537]


# --------------------------------------------------------------------------- plan
def _cuts(rng, n, bounds, mode):
    cuts = set()
    if mode == "whole":
        pass
    elif mode == "bytewise":
        cuts.update(range(1, n))
    elif mode == "random":
        k = rng.randrange(1, 3 + n // 16) if n < 4000 else rng.randrange(1, 40)
        for _ in range(k):
            cuts.add(rng.randrange(1, max(2, n)))
    elif mode == "boundary":
        for b in bounds:
            for d in rng.sample([-25, -24, -23, -1, 0, 1, 4, 16, 20, 23, 24, 25], 3):
                if 0 < b + d < n:
                    cuts.add(b + d)
    elif mode == "header":
        for b in [0] + bounds[:-1]:
            k = rng.randrange(1, 24)
            cuts.add(b + k)
            if rng.random() < 0.5:
                cuts.add(b + rng.randrange(1, 24))
            if rng.random() < 0.5:
                cuts.add(b + 24)
    elif mode == "frames":
        cuts.update(bounds)
    cuts = sorted(c for c in cuts if 0 < c < n)
    sizes = []
    prev = 0
    for c in cuts + [n]:
        if c > prev:
            sizes.append(c - prev)
            prev = c
    return sizes


def _codec_fields(rng, kind):
    if kind == "version":
        return {
            "start_height": rng.choice([0, 1, 2**31 - 1, 2**32 - 1, rng.randrange(2**32)]),
            "addr_recv_port": rng.choice([0, 1, 8333, 65535, rng.randrange(65536)]),
            "addr_trans_port": rng.choice([0, 1, 18444, 65535, rng.randrange(65536)]),
            "protocol_version": rng.choice([0, 209, 60002, 70015, 70016, 2**32 - 1, rng.randrange(2**32)]),
            "services": rng.choice([0, 1, 8, 9, 1033, 2**64 - 1, rng.getrandbits(64)]),
            "relay": rng.random() < 0.5,
        }
    if kind == "ping":
        return {"nonce": rng.choice([0, 1, 2**64 - 1, 2**63, rng.getrandbits(64)])}
    if kind == "getheaders":
        n = rng.choice([0, 1, 1, 2, 2, 3, 31, 252, 253, 300])
        if rng.random() < 0.004:
            n = 65536  # the 0xfe CompactSize form of the hash count (2 MiB payload)
        return {
            "protocol_version": rng.choice([70015, 0, 2**32 - 1, rng.randrange(2**32)]),
            "hashes": [hashlib.sha256(b"gh%d/%d" % (rng.getrandbits(32), i)).hexdigest() for i in range(n)],
            "stop_hash": rng.choice(["00" * 32, hashlib.sha256(b"stop%d" % rng.getrandbits(32)).hexdigest()]),
        }
    if kind == "inv":
        n = rng.choice([0, 1, 1, 2, 3, 6, 252, 253, 300])
        if rng.random() < 0.003:
            n = rng.choice([50000, 50001, 65535, 65536])  # Bitcoin Core's MAX_INV_SZ and the 0xfd / 0xfe CompactSize edge
        types = sorted(codecs.INV_TYPES)
        return {
            "items": [
                [types[(i + rng.randrange(6)) % 6] if n < 50 else types[i % 6], hashlib.sha256(b"inv%d/%d" % (rng.getrandbits(32), i)).hexdigest()]
                for i in range(n)
            ]
        }
    if kind == "addr":
        n = rng.choice([0, 1, 1, 2, 3, 10, 252, 253])
        return {
            "entries": [
                [
                    rng.choice([0, 2**32 - 1, rng.randrange(2**32)]),
                    rng.getrandbits(64).to_bytes(8, "little").hex(),
                    rng.choice([b"\x00" * 10 + b"\xff\xff" + rng.getrandbits(32).to_bytes(4, "big"), rng.getrandbits(128).to_bytes(16, "big")]).hex(),
                    rng.choice([0, 65535, rng.randrange(65536)]),
                ]
                for _ in range(n)
            ]
        }
    raise HarnessError(kind)


CODECS = ["version", "ping", "getheaders", "inv", "addr"]


def plan(seed, tier="quick", index=0):
    rng = sub_rng(seed, "plan")
    stratum = rng.choice(["clean", "clean", "bitflip", "bitflip", "truncate", "truncate", "foreign-magic", "codec", "codec", "codec", "concurrent"])
    network = rng.choice(sorted(MAGICS))
    if stratum == "concurrent":
        return _plan_concurrent(seed, rng, network)
    nframes = rng.choice([1, 1, 2, 3])
    long_run = stratum == "clean" and rng.random() < 0.04
    bulk = stratum == "clean" and not long_run and rng.random() < 0.01
    if long_run:
        nframes = rng.choice([17, 33, 65, 130, 257])  # long-lived connection: counters, thresholds, wrap-arounds
    if bulk:
        nframes = rng.choice([20, 40, 70])  # megabytes over one connection
    fr = []
    for _ in range(nframes):
        if stratum == "codec" or rng.random() < 0.15:
            kind = rng.choice(CODECS)
            fr.append({"cmd": kind, "codec": kind, "fields": _codec_fields(rng, kind), "built": "lib"})
        else:
            small = stratum in ("truncate", "bitflip") and rng.random() < 0.7
            size = rng.choice(SIZES[:9]) if small else rng.choice(SIZES)
            if rng.random() < 0.3:
                size = rng.randrange(0, 300)
            elif rng.random() < 0.25:
                size = rng.choice(EDGE_SIZES)
            elif rng.random() < 0.05:
                size = rng.randrange(0, 70001)
            inside = rng.random() < 0.8
            cmd = rng.choice(COMMAND_TABLE) if inside else rng.choice(["sendheaders", "feefilter", "wtxidrelay", "x", "twelve_chars", ""])
            if long_run:
                size = rng.choice([0, 0, 8, 36, 100])
            if bulk:
                size = rng.choice([8000, 65535, 65536, 70000, rng.randrange(0, 70001)])
            fr.append({"cmd": cmd, "payload_seed": rng.getrandbits(32), "size": size, "built": "lib" if inside and rng.random() < 0.8 else "ref"})
            if rng.random() < 0.2:
                fr[-1]["pattern"] = rng.choice(["zeros", "ff", "fd-markers", "magic", "embedded-frame"])
    sc = {
        "property": PROPERTY,
        "seed": seed,
        "stratum": stratum,
        "network": network,
        "epoch": 1600000000 + rng.randrange(0, 400000000),
        "frames": fr,
        "cut_mode": rng.choice(["whole", "bytewise", "random", "random", "boundary", "boundary", "header", "header", "frames"]),
        "cut_seed": rng.getrandbits(32),
        "short_read_rate": rng.choice([0.0, 0.0, 0.05, 0.3]),
        "delay_mode": rng.choice(["none", "none", "jitter", "slow"]),
        "sock_timeout": None,
        "fault": None,
    }
    if sc["delay_mode"] != "slow" and rng.random() < 0.4:
        sc["sock_timeout"] = 5.0  # as Node.connect_peer configures its sockets
    if stratum == "clean" and nframes >= 2 and rng.random() < 0.4:
        sc["abandon_after"] = rng.randrange(1, nframes)
        sc["cut_mode"] = rng.choice(["whole", "whole", "frames", "random"])
        sc["reconnect"] = {"recycle_identity": rng.random() < 0.7, "frames": [{"cmd": rng.choice(COMMAND_TABLE), "payload_seed": rng.getrandbits(32), "size": rng.choice([0, 8, 36, 100])} for _ in range(rng.choice([1, 2]))]}
    if rng.random() < 0.25:
        # state left over from earlier traffic on another network in the same process
        other = rng.choice([m for m in sorted(MAGICS) if m != network])
        sc["prelude"] = {"network": other, "cmds": [f["cmd"] for f in fr if f["cmd"] in COMMAND_TABLE][:2] or ["ping"], "size": rng.choice([0, 8, 40])}
    if stratum == "bitflip":
        sc["fault"] = {"kind": "bitflip", "frame": rng.randrange(nframes), "field": rng.choice(["magic", "command", "length", "checksum", "payload", "payload", "payload-first", "payload-last", "any"]), "pick": rng.getrandbits(32)}
    elif stratum == "truncate":
        sc["fault"] = {"kind": "truncate", "pick": rng.getrandbits(32), "where": rng.choice(["any", "any", "header", "boundary", "last-byte"])}
        if rng.random() < 0.5:
            sc["reconnect"] = {"recycle_identity": rng.random() < 0.6, "frames": [{"cmd": rng.choice(COMMAND_TABLE), "payload_seed": rng.getrandbits(32), "size": rng.choice([0, 8, 36, 100])} for _ in range(rng.choice([1, 2]))]}
    elif stratum == "foreign-magic":
        other = rng.choice([m for m in sorted(MAGICS) if m != network] + ["random"])
        sc["fault"] = {"kind": "foreign-magic", "frame": rng.randrange(nframes), "magic": MAGICS[other].hex() if other != "random" else rng.getrandbits(32).to_bytes(4, "big").hex()}
    return sc


def _plan_concurrent(seed, rng, network):
    """2-3 receivers, each on its own connection, inside recv_msg at the same time."""
    n = rng.choice([2, 2, 3])
    conns = []
    for c in range(n):
        frs = []
        for _ in range(rng.choice([1, 2, 3])):
            frs.append({"cmd": rng.choice(COMMAND_TABLE), "payload_seed": rng.getrandbits(32), "size": rng.choice([0, 1, 8, 24, 36, 80, 300]), "built": "ref"})
        conns.append({"frames": frs, "cut_mode": rng.choice(["header", "header", "random", "boundary", "bytewise"]), "cut_seed": rng.getrandbits(32)})
    strategy = rng.choice([["random", 0.05, 0.05], ["random", 0.2, 0.2], ["random", 0.5, 0.5], ["hold", 2, 200, 60], ["hold", 3, 400, 100], ["pct", 2, 300], ["rr", rng.choice([1, 3, 10])]])
    return {"property": PROPERTY, "seed": seed, "stratum": "concurrent", "network": network, "epoch": 1600000000, "conns": conns, "strategy": strategy, "short_read_rate": rng.choice([0.0, 0.2]), "frames": [], "fault": None, "cut_mode": "-"}


def _execute_concurrent(sc, tape, keep_events):
    import threading

    p2p = p2p_module(fresh=True)
    res = RunResult()
    res.stratum = "concurrent"
    log = EventLog(keep=keep_events)
    faults, probes = res.faults, res.probes
    magic = MAGICS[sc["network"]]
    sched = S.Sched(rng=sub_rng(sc["seed"], "sched"), log=log, strategy=tuple(sc["strategy"]), granularity="line", tape=tape, step_cap=400000, trace_files=(p2p.__file__,), all_hot=True)
    sched.register_main()
    clock = SimClock(sched, sc["epoch"])
    peers = []
    streams = []
    for ci, cd in enumerate(sc["conns"]):
        stream = b"".join(frames.frame(magic, f["cmd"], _payload_bytes(f["payload_seed"], f["size"])) for f in cd["frames"])
        bounds = []
        pos = 0
        for f in cd["frames"]:
            pos += 24 + f["size"]
            bounds.append(pos)
        crng = sub_rng(cd["cut_seed"], "cuts")
        sizes = _cuts(crng, len(stream), bounds, cd["cut_mode"] if len(stream) <= 400 or cd["cut_mode"] != "bytewise" else "random")
        segs = []
        t = 0.0
        pos = 0
        for sz in sizes:
            segs.append((t, stream[pos : pos + sz]))
            pos += sz
            t += crng.choice([0.0, 0.0, 0.001])
        peers.append(Peer(ci, f"10.0.1.{ci + 1}", 18500 + ci, segs, close_after=True))
        streams.append(stream)
    net = Net(sched, peers, faults, sub_rng(sc["seed"], "net"), short_read_rate=sc["short_read_rate"])
    results = {}
    viols = []
    aborted = None
    with P2PEnv(sched, net, clock, sc["network"]):
        socks = []
        for pr in peers:
            so = net.new_socket()
            so.connect((pr.host, pr.port))
            socks.append(so)

        def make(ci):
            def body():
                out = []
                for _ in sc["conns"][ci]["frames"]:
                    try:
                        out.append(("msg", p2p.recv_msg(socks[ci])))
                    except SimHang as e:
                        out.append(("hang", str(e)))
                        break
                    except Exception as e:  # noqa
                        out.append(("error", f"{type(e).__name__}: {e}"[:160]))
                        break
                results[ci] = out

            return body

        threads = []
        try:
            for ci in range(len(peers)):
                t = threading.Thread(target=make(ci))
                threads.append(t)
                t.start()
            sched.block(sched.others_done, None, what="driver-join")
        except S.SimAbort:
            aborted = sched.abort_reason or "abort"
        finally:
            if sched.aborting:
                sched.abort_all_from_driver()
    for t in threads:
        S._orig_thread_join(t, 30.0)
        if t.is_alive():
            raise HarnessError("simulated receiver thread did not terminate")
    if aborted and (aborted == "step-cap" or aborted.startswith("deadlock")):
        res.violations.append(Violation("eof-hang", "concurrent receivers", f"{aborted} after {sched.steps} steps").to_json())
        res.digest = log.digest()
        res.nontrivial = True
        return res
    if aborted:
        raise HarnessError(f"run aborted: {aborted}")
    for ci, stream in enumerate(streams):
        ref = [r for r in frames.parse_stream(stream, magic) if r[0] == "msg"]
        got = results.get(ci, [])
        for k, r in enumerate(ref):
            key = f"conn={ci} call={k}"
            if k >= len(got):
                viols.append(Violation("valid-message-rejected", key, "receiver stopped early (concurrent receivers)"))
                break
            kind, val = got[k]
            log.add(sched.now, ci, "recv_msg", (k, kind))
            if kind == "hang":
                viols.append(Violation("eof-hang", key, val))
                break
            if kind == "error":
                viols.append(Violation("valid-message-rejected", key, f"{val} (concurrent receivers on separate connections)"))
                break
            ok = isinstance(val, tuple) and len(val) == 3 and bytes(val[0]) == r[1] and bytes(val[1]).ljust(12, b"\x00") == r[2] and bytes(val[2]) == r[3]
            if not ok:
                viols.append(Violation("message-mismatch", key, f"got {_short(val)} want cmd={r[2]!r} len={len(r[3])} (concurrent receivers on separate connections)"))
                break
            probes.hit("message-ok-concurrent")
    seen = set()
    for v in viols:
        kk = (v.clause, v.key)
        if kk not in seen:
            seen.add(kk)
            res.violations.append(v.to_json())
    faults.hit("preemptive-switch", sched.switches)
    res.nontrivial = sched.switches >= 2
    res.sim_time = sched.now
    res.steps = sched.steps
    res.tape = sched.tape_out
    res.digest = log.digest()
    res.stats["trans"] = set()
    res.stats["events"] = log.events if keep_events else None
    res.features = {"stratum": "concurrent"}
    return res


# --------------------------------------------------------------------------- building
def _payload_bytes(seed, size, pattern=None, magic=b""):
    """Pseudo-random payload, or one of the byte patterns that mean something to a parser:
    zeros, 0xff, CompactSize markers, the network magic, a complete frame inside the payload."""
    if pattern == "zeros":
        return bytes(size)
    if pattern == "ff":
        return b"\xff" * size
    if pattern == "fd-markers":
        return (b"\xfd\xfe\xff\x00" * (size // 4 + 1))[:size]
    out = bytearray()
    c = 0
    while len(out) < size:
        out += hashlib.sha256(b"%d/%d" % (seed, c)).digest()
        c += 1
    out = out[:size]
    if pattern == "magic" and size >= 4:
        for pos in (0, size // 2, size - 4):
            out[pos : pos + 4] = magic[:4]
    if pattern == "embedded-frame" and size >= 24:
        inner = frames.frame(magic, "verack", b"")
        out[:24] = inner
        if size >= 56:
            out[size - 24 :] = inner
    return bytes(out[:size])


def _norm(v):
    if isinstance(v, str):
        try:
            return bytes.fromhex(v)
        except ValueError:
            return v
    return v


def build_lib_payload(p2p, kind, f):
    """Returns (payload bytes, expected {key: value}) using the library's builders."""
    if kind == "version":
        pl = p2p.version_payload(
            f["start_height"], f["addr_recv_port"], f["addr_trans_port"], protocol_version=f["protocol_version"], services=f["services"], relay=f["relay"]
        )
        exp = {k: f[k] for k in ("start_height", "addr_recv_port", "addr_trans_port", "protocol_version", "services", "relay")}
        exp["timestamp"] = "CLOCK"
        return pl, exp
    if kind == "ping":
        return p2p.ping_payload(f["nonce"]), {"nonce": f["nonce"]}
    if kind == "getheaders":
        hashes = [bytes.fromhex(h) for h in f["hashes"]]
        pl = p2p.getheaders_payload(f["protocol_version"], len(hashes), hashes, bytes.fromhex(f["stop_hash"]))
        exp = {"protocol_version": f["protocol_version"], "hash_count": len(hashes), "stop_hash": bytes.fromhex(f["stop_hash"])}
        exp["block_header_hashes"] = hashes
        return pl, exp
    if kind == "inv":
        invs = [p2p.inventory(t, bytes.fromhex(h)) for t, h in f["items"]]
        pl = p2p.inv_payload(len(invs), invs)
        return pl, {"count": len(invs), "inventory": [{"type_id": t, "hash": bytes.fromhex(h)} for t, h in f["items"]]}
    if kind == "addr":
        ents = [p2p.network_ip_addr(t, bytes.fromhex(s), bytes.fromhex(ip), port) for t, s, ip, port in f["entries"]]
        pl = p2p.addr_payload(len(ents), ents)
        return pl, {"addrs": [{"time": t, "services": bytes.fromhex(s), "ip_addr": bytes.fromhex(ip), "port": port} for t, s, ip, port in f["entries"]]}
    raise HarnessError(kind)


def _match(exp, got):
    """exp is matched against got; extra keys in got dicts are ignored."""
    if isinstance(exp, dict):
        if not isinstance(got, dict):
            return False
        return all((k in got and _match(exp[k], got[k])) or (exp[k] == [] and k not in got) for k in sorted(exp))
    if isinstance(exp, list):
        if not isinstance(got, (list, tuple)) or len(exp) != len(got):
            return False
        return all(_match(a, b) for a, b in zip(exp, got))
    if isinstance(exp, bool):
        return isinstance(got, (bool, int)) and not isinstance(got, float) and got == exp
    if isinstance(exp, bytes):
        return _norm(got) == exp
    return got == exp and type(got) is type(exp)


# --------------------------------------------------------------------------- execute
def execute(scenario, tape=None, keep_events=False):
    if scenario["stratum"] == "concurrent":
        return _execute_concurrent(scenario, tape, keep_events)
    p2p = p2p_module(fresh=True)
    seed = scenario["seed"]
    res = RunResult()
    res.stratum = scenario["stratum"]
    log = EventLog(keep=keep_events)
    faults, probes = res.faults, res.probes
    magic = MAGICS[scenario["network"]]
    sched = S.Sched(rng=sub_rng(seed, "sched"), log=log, strategy=("rtb",), granularity="io", step_cap=10**7)
    sched.register_main()
    clock = SimClock(sched, scenario["epoch"])
    net = Net(sched, [], faults, sub_rng(seed, "net"), short_read_rate=scenario["short_read_rate"])
    viols = []
    with P2PEnv(sched, net, clock, scenario["network"]):
        # -- earlier traffic on another network in the same process (state left over)
        pre = scenario.get("prelude")
        if pre:
            pm = MAGICS[pre["network"]]
            p2p.set_magic_start_bytes(pre["network"])
            for ci, cmd in enumerate(pre["cmds"]):
                pl = _payload_bytes(seed ^ ci, pre["size"])
                want = frames.frame(pm, cmd, pl)
                try:
                    fb = p2p.msg_ser(pm, cmd.encode(), pl)
                except Exception as e:
                    fb = None
                    viols.append(Violation("serialise-refused", f"prelude cmd={cmd}", f"{type(e).__name__}: {e}"))
                if fb is not None and fb != want:
                    viols.append(Violation("serialise-mismatch", f"prelude cmd={cmd}", f"lib={fb[:30].hex()} ref={want[:30].hex()}"))
                ppeer = Peer(100 + ci, "10.0.9.1", 19000 + ci, [(0.0, want)], close_after=True)
                net.peers[(ppeer.host, ppeer.port)] = ppeer
                net.by_port[ppeer.port] = ppeer
                ps = net.new_socket()
                ps.connect((ppeer.host, ppeer.port))
                try:
                    got = p2p.recv_msg(ps)
                    if not (bytes(got[0]) == pm and bytes(got[2]) == pl):
                        viols.append(Violation("message-mismatch", f"prelude cmd={cmd}", _short(got)))
                except SimHang as e:
                    viols.append(Violation("eof-hang", f"prelude cmd={cmd}", str(e)))
                except Exception as e:
                    viols.append(Violation("valid-message-rejected", f"prelude cmd={cmd}", f"{type(e).__name__}: {e}"[:160]))
            p2p.set_magic_start_bytes(scenario["network"])
            faults.hit("network-switch-in-process")
        # -- the peer builds its frames (library builders read the simulated clock)
        built = []
        stream = bytearray()
        for fd in scenario["frames"]:
            exp = None
            if fd.get("codec"):
                try:
                    payload, exp = build_lib_payload(p2p, fd["codec"], fd["fields"])
                except Exception as e:
                    raise HarnessError(f"library builder {fd['codec']} failed on in-range fields: {type(e).__name__}: {e}")
                if exp.get("timestamp") == "CLOCK":
                    exp["timestamp"] = int(scenario["epoch"] + sched.now)
            else:
                payload = _payload_bytes(fd["payload_seed"], fd["size"], fd.get("pattern"), magic)
            if fd["built"] == "lib":
                try:
                    fb = p2p.msg_ser(magic, fd["cmd"].encode(), payload)
                except Exception as e:
                    viols.append(Violation("serialise-refused", f"cmd={fd['cmd']}", f"{type(e).__name__}: {e}"))
                    fb = frames.frame(magic, fd["cmd"], payload)
                ref = frames.frame(magic, fd["cmd"], payload)
                if fb != ref:
                    viols.append(Violation("serialise-mismatch", f"cmd={fd['cmd']} size={len(payload)}", f"lib={fb[:40].hex()} ref={ref[:40].hex()}"))
                    fb = ref
            else:
                fb = frames.frame(magic, fd["cmd"], payload)
            built.append((len(stream), fb, payload, exp, fd))
            stream += fb
        bounds = [s + len(fb) for s, fb, _, _, _ in built]
        clean_len = len(stream)
        # -- the network injects its fault
        fault = scenario["fault"]
        fdesc = ""
        if fault:
            if fault["kind"] == "bitflip":
                s0, fb, payload, _, _ = built[fault["frame"]]
                field = fault["field"]
                ranges = {"magic": (0, 4), "command": (4, 16), "length": (16, 20), "checksum": (20, 24), "payload": (24, len(fb)), "any": (0, len(fb)), "payload-first": (24, min(25, len(fb))), "payload-last": (max(24, len(fb) - 1), len(fb))}
                lo, hi = ranges[field]
                if hi <= lo:
                    lo, hi = 0, 24
                    field = "header"
                bit = fault["pick"] % ((hi - lo) * 8)
                off = s0 + lo + bit // 8
                stream[off] ^= 1 << (bit % 8)
                faults.hit("bitflip-" + _field_of(off - s0))
                fdesc = f"bitflip@{off}.{bit % 8}"
            elif fault["kind"] == "truncate":
                w = fault["where"]
                if w == "header":
                    s0 = built[fault["pick"] % len(built)][0]
                    cut = s0 + 1 + (fault["pick"] >> 8) % 23
                elif w == "boundary":
                    cut = ([0] + bounds[:-1])[fault["pick"] % len(built)]
                elif w == "last-byte":
                    cut = bounds[fault["pick"] % len(built)] - 1
                else:
                    cut = fault["pick"] % len(stream)
                del stream[cut:]
                k = max(i for i, b in enumerate([0] + bounds) if b <= cut)
                rel = cut - ([0] + bounds)[k]
                faults.hit("truncate-" + ("at-boundary" if rel == 0 else _field_of(rel)))
                fdesc = f"truncate@{cut}"
            elif fault["kind"] == "foreign-magic":
                s0 = built[fault["frame"]][0]
                stream[s0 : s0 + 4] = bytes.fromhex(fault["magic"])
                faults.hit("foreign-magic")
                fdesc = f"foreign-magic@{s0}"
        stream = bytes(stream)
        # -- segmentation and delivery schedule
        crng = sub_rng(scenario["cut_seed"], "cuts")
        mode = scenario["cut_mode"]
        if mode == "bytewise" and len(stream) > 400:
            mode = "random"
        sizes = _cuts(crng, len(stream), [b for b in bounds if b <= len(stream)] or [len(stream)], mode) if stream else []
        segs = []
        t = 0.0
        pos = 0
        for sz in sizes:
            segs.append((t, stream[pos : pos + sz]))
            pos += sz
            if scenario["delay_mode"] == "jitter":
                t += crng.choice([0.0, 0.0, 0.001, 0.05])
            elif scenario["delay_mode"] == "slow":
                t += crng.choice([0.5, 3.0, 30.0, 700.0])
        peer = Peer(0, "10.0.0.1", 18444, segs, close_after=True)
        net.peers[(peer.host, peer.port)] = peer
        net.by_port[peer.port] = peer
        net.set_recv_cap(4 * len(stream) + 64)
        sock = net.new_socket()
        if scenario.get("sock_timeout"):
            sock.settimeout(scenario["sock_timeout"])  # a timeout is set but never reached (gaps stay far below it)
        sock.connect((peer.host, peer.port))
        # -- reference verdict on the same faulty byte stream
        ref = frames.parse_stream(stream, magic)
        if not ref or ref[-1][0] != "error":
            ref.append(("error", "eof-at-boundary", len(stream)))
        # -- the receiver
        for k, r in enumerate(ref):
            if scenario.get("abandon_after") is not None and k >= scenario["abandon_after"]:
                # the application loses interest: unread data (possibly already buffered by a
                # read-ahead implementation) dies with this connection
                faults.hit("connection-abandoned-with-unread-data")
                fdesc = f"abandoned after {k} messages"
                break
            before = sock.consumed
            try:
                got = p2p.recv_msg(sock)
                outcome = ("msg", got)
            except SimHang as e:
                outcome = ("hang", str(e))
            except S.SimAbort:
                raise HarnessError(f"aborted: {sched.abort_reason}")
            except Exception as e:
                outcome = ("error", f"{type(e).__name__}: {e}"[:160])
            log.add(sched.now, 0, "recv_msg", (k, outcome[0], r[0]))
            key = f"call={k} ref={r[0]}:{r[1] if r[0] == 'error' else r[2].rstrip(bytes(1)).decode('latin1')}"
            if outcome[0] == "hang":
                viols.append(Violation("eof-hang", key, f"{outcome[1]}; fault={fdesc}"))
                break
            if r[0] == "error":
                if outcome[0] == "msg":
                    clause = {"checksum": "corruption-accepted", "magic": "foreign-magic-accepted", "truncated-header": "phantom-message", "truncated-payload": "phantom-message", "eof-at-boundary": "phantom-message"}[r[1]]
                    viols.append(Violation(clause, key, f"returned {_short(outcome[1])}; fault={fdesc}"))
                else:
                    probes.hit("rejected-" + r[1])
                break
            # reference says: a message
            if outcome[0] == "error":
                viols.append(Violation("valid-message-rejected", key, f"{outcome[1]}; fault={fdesc}; cuts={sizes[:12]}"))
                break
            got = outcome[1]
            ok = (
                isinstance(got, tuple)
                and len(got) == 3
                and bytes(got[0]) == r[1]
                and bytes(got[1]).ljust(12, b"\x00") == r[2]
                and bytes(got[2]) == r[3]
            )
            if not ok:
                viols.append(Violation("message-mismatch", key, f"got {_short(got)} want cmd={r[2]!r} len={len(r[3])}; fault={fdesc}; cuts={sizes[:12]}"))
                break
            probes.hit("message-ok")
            # codec clause (only for unfaulted, library-built payloads)
            idx = [i for i, b in enumerate(bounds) if b == r[4]]
            if idx and built[idx[0]][3] is not None and built[idx[0]][1] == stream[built[idx[0]][0] : r[4]]:
                exp = built[idx[0]][3]
                kind = built[idx[0]][4]["codec"]
                try:
                    parsed = p2p.parse_payload(got[1], got[2])
                    if not _match(exp, parsed):
                        bad = [k2 for k2 in sorted(exp) if not (isinstance(parsed, dict) and k2 in parsed and _match(exp[k2], parsed[k2]))]
                        viols.append(Violation("codec-" + kind, f"fields={','.join(bad)}", f"built from {_short(built[idx[0]][4]['fields'])} parsed {_short(parsed)}", features={"codec": kind, "fields": ",".join(bad)}))
                    else:
                        probes.hit("codec-ok-" + kind)
                except Exception as e:
                    viols.append(Violation("codec-" + kind, "parse-raised", f"{type(e).__name__}: {e}; built from {_short(built[idx[0]][4]['fields'])}", features={"codec": kind, "fields": "raised"}))
        # -- reach: header-loop transitions on clean streams
        trans = set()
        if not fault:
            pos = 0
            starts = [s for s, _, _, _, _ in built]
            fi = 0
            for k in sock.recv_log:
                while fi + 1 < len(starts) and pos >= starts[fi + 1]:
                    fi += 1
                rel = pos - starts[fi]
                if rel < 24:
                    trans.add(("H", rel, k))
                else:
                    plen = len(built[fi][2])
                    if plen <= 64:
                        trans.add(("P", plen, rel - 24, k))
                pos += k
        res.stats["trans"] = trans
        # -- a new connection after this one died: nothing of the old one may leak into it
        rc = scenario.get("reconnect")
        recv_count, nsplit = len(sock.recv_log), len(segs)
        if rc:
            import gc

            # CPython hands the address (id) of a dead socket object to a later one sooner or
            # later.  The simulator provokes that on purpose: the dead object is released and
            # fresh socket objects are allocated right away until one lands on the same address
            # (it usually is the first).  The new connection always gets a NEW object - code that
            # keys state on the socket object itself (e.g. a WeakKeyDictionary) is unaffected.
            want_recycle = bool(rc.get("recycle_identity"))
            dead_id = id(sock)
            net.sockets.remove(sock)
            peer.sock = None
            sock = None
            recycled = None
            if want_recycle:
                spare = []
                for _ in range(64):
                    cls = net.socket_class or SimSocket
                    cand = cls.__new__(cls)  # same type (and size) as the dead one, not yet registered with the network
                    SimSocket.__init__(cand, net)
                    if id(cand) == dead_id:
                        recycled = cand
                        break
                    spare.append(cand)
                spare = None
            gc.collect()
            for ci, fd in enumerate(rc["frames"]):
                pl = _payload_bytes(fd["payload_seed"], fd["size"])
                want = frames.frame(magic, fd["cmd"], pl)
                k = 1 + fd["payload_seed"] % max(1, len(want) - 1)
                rsegs = [(0.0, want[:k]), (0.0, want[k:])] if fd["payload_seed"] % 2 else [(0.0, want)]
                npeer = Peer(200 + ci, "10.0.8.1", 19500 + ci, rsegs, close_after=True)
                net.peers[(npeer.host, npeer.port)] = npeer
                net.by_port[npeer.port] = npeer
                if recycled is not None and ci == 0:
                    recycled.local_port = 50000 + len(net.sockets)
                    net.sockets.append(recycled)
                    ns = recycled
                    recycled = None
                    faults.hit("socket-identity-recycled")
                else:
                    ns = net.new_socket()
                ns.connect((npeer.host, npeer.port))
                key = f"reconnect conn={ci} cmd={fd['cmd']}"
                try:
                    got = p2p.recv_msg(ns)
                    if not (isinstance(got, tuple) and len(got) == 3 and bytes(got[0]) == magic and bytes(got[1]).ljust(12, b"\x00") == fd["cmd"].encode().ljust(12, b"\x00") and bytes(got[2]) == pl):
                        viols.append(Violation("message-mismatch", key, f"got {_short(got)} after an earlier connection ended with {fdesc}"))
                    else:
                        probes.hit("message-ok-after-reconnect")
                except SimHang as e:
                    viols.append(Violation("eof-hang", key, str(e)))
                except Exception as e:
                    viols.append(Violation("valid-message-rejected", key, f"{type(e).__name__}: {e}; an earlier connection ended with {fdesc}"[:300]))
                log.add(sched.now, 0, "reconnect", ci)
                net.sockets.remove(ns)
                npeer.sock = None
                ns = None
            faults.hit("reconnect-after-dead-connection")
    seen = set()
    for v in viols:
        kk = (v.clause, v.key)
        if kk not in seen:
            seen.add(kk)
            res.violations.append(v.to_json())
    split = recv_count > len(scenario["frames"]) * 2 or nsplit > 1
    res.nontrivial = bool(fault) or split
    res.sim_time = sched.now
    res.steps = sched.steps
    res.digest = log.digest()
    res.stats["events"] = log.events if keep_events else None
    res.features = {"stratum": scenario["stratum"]}
    return res


def _field_of(rel):
    if rel < 4:
        return "magic"
    if rel < 16:
        return "command"
    if rel < 20:
        return "length"
    if rel < 24:
        return "checksum"
    return "payload"


def _short(x):
    s = repr(x)
    return s if len(s) < 240 else s[:240] + "..."


def merge_stats(agg, st, final=False):
    agg.setdefault("trans", set())
    agg["trans"] |= st.get("trans", set())


def finalise_stats(st):
    tr = st.get("trans", set())
    return {
        "header_loop_transitions_reached": len([t for t in tr if t[0] == "H"]),
        "header_loop_transitions_possible": 300,
        "payload_loop_transitions_reached_payloads_le_64": len([t for t in tr if t[0] == "P"]),
        "distinct_interleavings": len(tr),
        "distinct_interleavings_measure": "distinct (bytes-received-so-far, chunk-size) transitions of recv_msg's header loop and (payload length <= 64) payload loop on clean streams",
    }


def selfcheck():
    assert frames.selftest()


def shrink_candidates(scenario, tape):
    import copy

    if scenario["stratum"] == "concurrent":
        return
    if scenario.get("prelude"):
        sc = copy.deepcopy(scenario)
        del sc["prelude"]
        yield sc, tape
    if scenario.get("reconnect"):
        sc = copy.deepcopy(scenario)
        del sc["reconnect"]
        sc.pop("abandon_after", None)
        yield sc, tape
    if len(scenario["frames"]) > 1:
        for i in range(len(scenario["frames"]) - 1, -1, -1):
            f = scenario["fault"]
            if f and f.get("frame") == i:
                continue
            sc = copy.deepcopy(scenario)
            sc["frames"].pop(i)
            if sc["fault"] and sc["fault"].get("frame", 0) > i:
                sc["fault"]["frame"] -= 1
            yield sc, tape
    if scenario["cut_mode"] != "whole":
        sc = copy.deepcopy(scenario)
        sc["cut_mode"] = "whole"
        yield sc, tape
    if scenario["short_read_rate"]:
        sc = copy.deepcopy(scenario)
        sc["short_read_rate"] = 0.0
        yield sc, tape
    if scenario["delay_mode"] != "none":
        sc = copy.deepcopy(scenario)
        sc["delay_mode"] = "none"
        yield sc, tape
    for i, fd in enumerate(scenario["frames"]):
        if fd.get("size", 0) > 8:
            sc = copy.deepcopy(scenario)
            sc["frames"][i]["size"] = fd["size"] // 2
            yield sc, tape
        fl = fd.get("fields")
        if fl:
            for key in ("hashes", "items", "entries"):
                if key in fl and len(fl[key]) > 1:
                    sc = copy.deepcopy(scenario)
                    sc["frames"][i]["fields"][key] = fl[key][: max(1, len(fl[key]) // 2)]
                    yield sc, tape


def sample(scenario):
    if scenario["stratum"] == "concurrent":
        return {"stratum": "concurrent", "strategy": scenario["strategy"], "conns": [{"frames": [(f["cmd"], f["size"]) for f in c["frames"]], "cut_mode": c["cut_mode"]} for c in scenario["conns"]]}
    return {
        "stratum": scenario["stratum"],
        "network": scenario["network"],
        "frames": [{k: (v if k != "fields" else _short(v)) for k, v in f.items()} for f in scenario["frames"]],
        "cut_mode": scenario["cut_mode"],
        "short_read_rate": scenario["short_read_rate"],
        "fault": scenario["fault"],
    }
