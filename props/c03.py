"""
C03 (key-generation clauses only) -- a freshly generated private key always lies in
[1, n-1] whatever the random source returns, and the public key derived from a
private key k is kG.

The algebraic clauses of C03 (group law over all points / scalars) are pure functions
of their arguments and are NOT decided here; see DESIGN.md §5.

Real code under simulation: bits.keys.key, bits.keys.pub, bits.utils.privkey_int /
compute_point / pubkey / point, bits.ecmath.*, and `bits key` through
bits.__main__.main() in-process.
Stub: the entropy source.
"""
import io
import sys

from ref import secp256k1 as EC
from sim.core import Counters, EventLog, HarnessError, RunResult, Violation, import_bits, sub_rng
from sim.rngsim import EntropyHang, EntropySeam, SimEntropy

PROPERTY = "C03"
LEVEL = "exploration"
ENGINE = "rngsim"
HAS_VIRTUAL_TIME = False
N = EC.N

TIERS = {
    "quick": {"runs": 480, "batch": 2, "ops": (6, 16), "wall_cap": 1500},
    "thorough": {"runs": 16000, "batch": 8, "ops": (8, 40)},
}

COMPONENTS = {
    "real": [
        "bits.keys.key / bits.keys.pub",
        "bits.utils.privkey_int / compute_point / pubkey / point, bits.ecmath.point_scalar_mul / point_add / field helpers",
        "bits.__main__.main() for `bits key -0x` (argument parsing, Config, write_bytes), run in-process with captured stdout",
    ],
    "stub": [
        "thread scheduler for the concurrent stratum (2-4 simulated caller threads, line-level pre-emption inside ecmath/utils/keys, package re-imported per run)","entropy source: secrets.* and os.urandom scripted by a per-operation tape (0, 1, n-1, n-2, mid, repeated draws, pairs differing only in high or only in low bits)"],
}
RULE = (
    "one evaluation = one seeded history of key generations (API and CLI) under a scripted entropy tape; every generated key must be accepted by privkey_int, its compressed and uncompressed "
    "public keys must equal the reference encoding of k*G and decode back to that point, distinct accepted draws must give distinct keys, and generation must return within 4 draws after the "
    "last injected zero. non-trivial = a boundary / repeated / paired draw fired; distinct = distinct SHA-256 of the event log"
)
ASSUMPTIONS = [
    "reference secp256k1 in /verif/ref/secp256k1.py (pinned to fixed points and cross-checked against OpenSSL when importable)",
    "the random source honours its contract (value < bound) but may return any in-range value including 0",
    "only the key-generation and k*G clauses of C03 are decided; the group-law clauses over all points are exercised only incidentally",
]

_mods = None


def mods():
    global _mods
    if _mods is None:
        bits = import_bits()
        import logging

        import bits.__main__ as bmain
        import bits.ecmath
        import bits.keys
        import bits.utils

        logging.disable(logging.CRITICAL)
        _mods = (bits, bits.ecmath, bits.keys, bits.utils, bmain)
    return _mods


def plan(seed, tier="quick", index=0):
    rng = sub_rng(seed, "plan")
    lo, hi = TIERS.get(tier, TIERS["quick"])["ops"]
    nops = rng.randrange(lo, hi + 1)
    stratum = rng.choice(["boundary", "boundary", "pairs", "random", "mixed", "concurrent"])
    if stratum == "concurrent":
        nthreads = rng.choice([2, 2, 3, 4])
        keys_only = rng.random() < 0.4  # short operations: the windows inside key() itself matter
        threads = [
            [
                {"compressed": rng.random() < 0.5, "pub": not keys_only, "tape": rng.choice([[], [], ["ONE"], ["BOUND-1"], [{"frac": rng.random()}]])}
                for _ in range(rng.choice([3, 5, 8]) if keys_only else rng.choice([1, 1, 2]))
            ]
            for _ in range(nthreads)
        ]
        if keys_only:
            strategy = rng.choice([["random", 0.05, 0.05], ["random", 0.2, 0.2], ["random", 0.5, 0.5], ["hold", 3, 200, 30], ["hold", 6, 400, 60], ["pct", 3, 300], ["rr", rng.choice([1, 2, 5])]])
        else:
            horizon = 22000 * sum(len(t) for t in threads)
            strategy = rng.choice(
                [
                    ["random", 0.0003, 0.0003],
                    ["random", 0.002, 0.002],
                    ["random", 0.01, 0.01],
                    ["hold", 1, horizon, 60000],
                    ["hold", 2, horizon, 60000],
                    ["hold", 3, horizon, 20000],
                    ["pct", 1, horizon],
                    ["pct", 2, horizon],
                    ["rr", rng.choice([50, 500, 5000])],
                ]
            )
        return {"property": PROPERTY, "seed": seed, "stratum": stratum, "threads": threads, "strategy": strategy, "ops": []}
    import os

    p_very_long = float(os.environ.get("C03_VERY_LONG_P", "0.0006" if tier == "thorough" else "0"))
    if rng.random() < p_very_long:
        # over a thousand public-key derivations in one process, then the first keys again
        # (caches with a capacity, ~70 s per run: thorough tier only)
        stratum, nops = "very-long", rng.choice([1030, 1100])
    elif rng.random() < 0.01:
        # hundreds of keys in one process (no public-key derivation for most of them)
        stratum, nops = "long", rng.choice([300, 520, 1030])
    ops = []
    while len(ops) < nops:
        kind = stratum if stratum not in ("mixed", "long", "very-long") else rng.choice(["boundary", "pairs", "random"])
        if stratum == "very-long":
            kind = "random"
        via = "cli" if rng.random() < (0.02 if stratum in ("long", "very-long") else 0.15) else "api"
        if kind == "boundary":
            pre = rng.choice([[], [], ["ZERO"], ["ZERO", "ZERO"], ["ZERO"] * rng.randrange(3, 8)])
            # (absolute values around n matter when the implementation draws from a wider range, e.g. 2^256)
            last = rng.choice(["ZERO", "ONE", "ONE", "BOUND-1", "BOUND-1", "BOUND-2", "MID", {"frac": rng.random()}, {"v": hex(rng.getrandbits(rng.choice([16, 100, 127, 240])))}, {"v": hex(N)}, {"v": hex(N - 1)}, {"v": hex(N + 1)}, {"v": hex(2 * N % 2**256)}])
            ops.append({"via": via, "tape": pre + [last]})
        elif kind == "pairs":
            a = rng.randrange(1, N)
            bit = rng.choice([0, 1, 7, 8, 64, 127, 128, 129, 200, 248, 255])
            b = a ^ (1 << bit)
            if not (1 <= b < N - 1):
                b = (a + 1) % (N - 1) or 1
            ops.append({"via": via, "tape": [{"v": hex(a)}]})
            ops.append({"via": "api", "tape": [{"v": hex(b)}]})
        else:
            ops.append({"via": via, "tape": [] if stratum == "very-long" else rng.choice([[], ["REPEAT-LAST"] if ops else []])})
    return {"property": PROPERTY, "seed": seed, "stratum": stratum, "ops": ops}


def _execute_concurrent(sc, tape, keep_events):
    """2-4 caller threads generating keys and deriving public keys at the same time,
    each run starting from a freshly imported package (shared module state is the target)."""
    from sim import callersim
    from sim import sched as S

    res = RunResult()
    res.stratum = "concurrent"
    log = EventLog(keep=keep_events)
    faults, probes = res.faults, res.probes
    bits, (ecmath, keys, utils) = callersim.fresh_bits()
    global _mods
    _mods = None
    ent = SimEntropy(log, sub_rng(sc["seed"], "entropy"), max_draws_per_op=10**9)
    holder = {}
    results = {}
    draws_of = {}
    per_thread = {}
    orig_randbelow = ent.randbelow

    last_draw = {}
    ndraws = {}

    def randbelow(bound):
        tid = holder["sched"].me()
        tp = per_thread.get(tid)
        if tp:
            ent.tape, ent.pos = [tp.pop(0)], 0
        v = orig_randbelow(bound)
        last_draw[tid] = v
        ndraws[tid] = ndraws.get(tid, 0) + 1
        return v

    ent.randbelow = randbelow

    def make(ti, ops):
        def body():
            for oi, op in enumerate(ops):
                per_thread[holder["sched"].me()] = list(op["tape"])
                n0 = ndraws.get(holder["sched"].me(), 0)
                try:
                    key = keys.key()
                    drew = ndraws.get(holder["sched"].me(), 0) > n0
                    pub = keys.pub(bytes(key), compressed=op["compressed"]) if op.get("pub", True) else b""
                    results[(ti, oi)] = ("ok", bytes(key), bytes(pub))
                    # None: this call read nothing from the source (an implementation that buffers)
                    draws_of[(ti, oi)] = last_draw.get(holder["sched"].me()) if drew else None
                except Exception as e:  # noqa
                    results[(ti, oi)] = ("raised", f"{type(e).__name__}: {e}"[:200], b"")

        return body

    fns = [make(ti, ops) for ti, ops in enumerate(sc["threads"])]
    with EntropySeam(ent, [ecmath, keys, utils]):
        orig_init = S.Sched.__init__

        def init(self, *a, **k):
            orig_init(self, *a, **k)
            holder["sched"] = self

        S.Sched.__init__ = init
        try:
            sched, died = callersim.run_callers(sub_rng(sc["seed"], "sched"), log, fns, sc["strategy"], [ecmath.__file__, utils.__file__, keys.__file__], tape=tape)
        except S.StepCapExceeded as e:
            res.violations.append(Violation("nontermination", "concurrent callers", str(e)).to_json())
            res.digest = log.digest()
            res.nontrivial = True
            return res
        finally:
            S.Sched.__init__ = orig_init
    viols = []
    for ti, exc in enumerate(died):
        if exc is not None:
            viols.append(Violation("keygen-raised", f"thread={ti}", f"caller thread died: {exc!r}", {"via": "concurrent"}))
    n_ok = 0
    for (ti, oi) in sorted(results):
        st, key, pub = results[(ti, oi)]
        op = sc["threads"][ti][oi]
        where = f"thread={ti} op={oi}"
        feats = {"via": "concurrent", "last": ""}
        if st == "raised":
            viols.append(Violation("keygen-raised", where, key, feats))
            continue
        k = int.from_bytes(key, "big")
        log.add(ti, "op", "key", (oi, key.hex()[:16], pub.hex()[:16]))
        if len(key) != 32 or not (1 <= k <= N - 1):
            viols.append(Violation("key-out-of-range", where, f"key={k:#x}", feats))
            continue
        if not op.get("pub", True):
            n_ok += 1
            probes.hit("concurrent-key-in-range")
            continue
        want = EC.pub_bytes(k, op["compressed"])
        if pub != want:
            viols.append(Violation("pubkey-mismatch", where + f" compressed={op['compressed']}", f"k={k:#x} got {pub.hex()} want {want.hex()} (concurrent callers)", feats))
        else:
            n_ok += 1
            probes.hit("concurrent-pubkey-correct")
    by_key = {}
    for ko in sorted(results):
        if results[ko][0] == "ok":
            by_key.setdefault(results[ko][1], []).append(ko)
    for kb in sorted(by_key):
        ops_ = by_key[kb]
        ds = {draws_of.get(o) for o in ops_}
        if None in ds and ent.history:
            # buffering implementation: which bytes fed which key is not observable, so any
            # repetition in the source's output exempts the run
            probes.hit("buffered-entropy")
            if len(set(ent.history)) < len(ent.history):
                continue
        if len(ops_) > 1 and len(ds) > 1:
            viols.append(Violation("key-collision", f"ops={ops_}", f"callers that drew {sorted(hex(d) for d in ds if d is not None)} were handed the same key {kb.hex()} (concurrent callers)", {"via": "concurrent"}))
    seen = set()
    for v in viols:
        kk = (v.clause, v.key)
        if kk not in seen:
            seen.add(kk)
            res.violations.append(v.to_json())
    faults.hit("preemptive-switch", sched.switches)
    res.nontrivial = sched.switches >= 2
    res.digest = log.digest()
    res.tape = sched.tape_out
    res.steps = sched.steps
    import hashlib

    res.stats["schedule"] = hashlib.sha256(repr(sched.tape_out).encode()).hexdigest()[:16]
    res.stats["keys"] = n_ok
    res.stats["events"] = log.events if keep_events else None
    res.features = {"stratum": "concurrent"}
    return res


def execute(scenario, tape=None, keep_events=False):
    if scenario["stratum"] == "concurrent":
        return _execute_concurrent(scenario, tape, keep_events)
    mods()
    import importlib

    from sim import callersim

    # every run starts from a freshly imported package ("a new process")
    bits, (ecmath, keys, utils) = callersim.fresh_bits()
    bmain = importlib.import_module("bits.__main__")
    sc = scenario
    res = RunResult()
    res.stratum = sc["stratum"]
    log = EventLog(keep=keep_events)
    faults, probes = res.faults, res.probes
    ent = SimEntropy(log, sub_rng(sc["seed"], "entropy"))
    ent.faults = faults
    viols = []
    made = []  # (op, accepted draw, key int)
    buffered = False
    with EntropySeam(ent, [ecmath, keys, utils, bmain]):
        for i, op in enumerate(sc["ops"]):
            where = f"op={i} via={op['via']}"
            feats = {"via": op["via"], "last": str(op["tape"][-1]) if op["tape"] else ""}

            def gen():
                if op["via"] == "api":
                    return keys.key()
                old_argv, old_out = sys.argv, sys.stdout
                buf = io.StringIO()
                sys.argv = ["bits", "key", "-0x"]
                sys.stdout = buf
                try:
                    bmain.main()
                finally:
                    sys.argv, sys.stdout = old_argv, old_out
                txt = buf.getvalue().strip()
                return bytes.fromhex(txt)

            ent.begin_op(op["tape"])
            n_hist = len(ent.history)
            try:
                key = gen()
            except EntropyHang as e:
                viols.append(Violation("nontermination", where, f"{e}; tape={op['tape']}", feats))
                continue
            except HarnessError:
                raise
            except SystemExit as e:
                viols.append(Violation("keygen-raised", where, f"SystemExit({e.code})", feats))
                continue
            except Exception as e:
                viols.append(Violation("keygen-raised", where, f"{type(e).__name__}: {e}"[:300], feats))
                continue
            drawn = ent.history[n_hist:]
            if ent.op_draws == 0:
                if not ent.draws:
                    raise HarnessError("key generation consumed no simulated entropy: the random source by-passes the seam")
                # entropy was read earlier in this run but not by this call: a buffering implementation
                probes.hit("buffered-entropy")
                buffered = True
            log.add(i, "op", "key", key.hex() if isinstance(key, (bytes, bytearray)) else repr(key))
            if not isinstance(key, (bytes, bytearray)) or len(key) != 32:
                viols.append(Violation("key-format", where, f"{key!r}", feats))
                continue
            k = int.from_bytes(key, "big")
            if not (1 <= k <= N - 1):
                viols.append(Violation("key-out-of-range", where, f"key={k:#x}; draws={[hex(v) for v in drawn]}", feats))
                continue
            try:
                if utils.privkey_int(bytes(key)) != k:
                    viols.append(Violation("privkey-int", where, f"privkey_int disagrees for {k:#x}", feats))
            except Exception as e:
                viols.append(Violation("key-refused", where, f"privkey_int raised {type(e).__name__}: {e}", feats))
                continue
            zero_idx = [j for j, v in enumerate(drawn) if v == 0]
            if zero_idx:
                probes.hit("zero-draw")
            if len(drawn) - 1 - (zero_idx[-1] if zero_idx else -1) > 4:
                viols.append(Violation("nontermination", where, f"{len(drawn)} draws, last zero at {zero_idx[-1:]}", feats))
            if k == 1:
                probes.hit("key=1")
            if k == N - 1:
                probes.hit("key=n-1")
            # public key = k*G
            if sc["stratum"] == "long" and i % 50:
                made.append((i, drawn[-1] if drawn else None, k))
                continue  # long histories: derive and check the public key only for every 50th key
            if sc["stratum"] == "very-long":
                made.append((i, drawn[-1] if drawn else None, k))
                try:
                    got = keys.pub(bytes(key), compressed=True)
                    if got != EC.pub_bytes(k, True):
                        viols.append(Violation("pubkey-mismatch", where + " compressed=True", f"k={k:#x} got {bytes(got).hex()}", feats))
                except Exception as e:
                    viols.append(Violation("pubkey-raised", where, f"{type(e).__name__}: {e}"[:200], feats))
                continue
            Pt = EC.mul(k)
            for comp in (True, False):
                want = EC.pub_bytes(k, comp)
                try:
                    got = keys.pub(bytes(key), compressed=comp)
                except Exception as e:
                    viols.append(Violation("pubkey-raised", where + f" compressed={comp}", f"{type(e).__name__}: {e}"[:200], feats))
                    continue
                if got != want:
                    viols.append(Violation("pubkey-mismatch", where + f" compressed={comp}", f"k={k:#x} got {bytes(got).hex()} want {want.hex()}", feats))
                    continue
                if comp or i % 4 == 0:
                    try:
                        back = bits.point(got)
                        if tuple(back) != Pt:
                            viols.append(Violation("pubkey-decode", where + f" compressed={comp}", f"point() gives {back}", feats))
                    except Exception as e:
                        viols.append(Violation("pubkey-decode", where + f" compressed={comp}", f"point() raised {type(e).__name__}: {e}"[:200], feats))
            made.append((i, drawn[-1] if drawn else None, k))
            # refusal clause, over the history: after K has been used, byte strings that are
            # not a 32-byte encoding of an integer in [1, n-1] must still be refused
            if i % 2 == 0:
                variants = [
                    ("zero-32", bytes(32)),
                    ("n", N.to_bytes(32, "big")),
                    ("2^256-1", b"\xff" * 32),
                    ("33-bytes-zero-prefixed", b"\x00" + bytes(key)),
                    ("40-bytes-zero-prefixed", bytes(8) + bytes(key)),
                    ("31-bytes", bytes(key)[1:]),
                    ("33-bytes-trailing-01", bytes(key) + b"\x01"),
                    ("33-bytes-trailing-00", bytes(key) + b"\x00"),
                    ("64-bytes-key-twice", bytes(key) * 2),
                    ("64-bytes-ascii-hex", bytes(key).hex().encode()),
                    ("64-bytes-ascii-HEX", bytes(key).hex().upper().encode()),
                    ("66-bytes-0x-hex", b"0x" + bytes(key).hex().encode()),
                    ("empty", b""),
                ]
                if k + N < 2**256:
                    variants.append(("k+n", (k + N).to_bytes(32, "big")))
                for name, v in variants:
                    for fn_name, fn in (("privkey_int", utils.privkey_int), ("keys.pub", lambda b: keys.pub(b, compressed=True))):
                        try:
                            out = fn(v)
                        except HarnessError:
                            raise
                        except Exception:
                            probes.hit("malformed-key-refused")
                            continue
                        viols.append(Violation("malformed-key-accepted", where + f" variant={name} by={fn_name}", f"after generating/using key {k:#x}: {v.hex()} -> {out if isinstance(out, int) else bytes(out).hex()}", feats))
    if sc["stratum"] == "very-long":
        # the first keys again, after more than a thousand others
        for i, acc, k in made[:3]:
            for comp in (True, False):
                try:
                    got = keys.pub(k.to_bytes(32, "big"), compressed=comp)
                    if got != EC.pub_bytes(k, comp):
                        viols.append(Violation("pubkey-mismatch", f"op={i} again after {len(made)} keys compressed={comp}", f"k={k:#x} got {bytes(got).hex()} want {EC.pub_bytes(k, comp).hex()}", {"via": "api", "last": ""}))
                    else:
                        probes.hit("rederived-after-1000-keys")
                except Exception as e:
                    viols.append(Violation("pubkey-raised", f"op={i} again", f"{type(e).__name__}: {e}"[:200], {"via": "api", "last": ""}))
    # incidental reach (NOT part of the claim, see DESIGN 9.2): differential checks of the
    # group law on values that flowed through this history, against the reference
    if made and sc.get("algebra", True):
        arng = sub_rng(sc["seed"], "algebra")
        G = (EC.GX, EC.GY)
        a = made[0][2]
        b = made[-1][2] if len(made) > 1 else (a * 7 + 3) % N or 1
        A, B = EC.mul(a), EC.mul(b)
        beta = 0x7AE96A2B657C07106E64479EAC3434E99CF0497512F58995C1396C28719501EE
        pairs = [("A+B", A, B), ("A+A", A, A), ("A+(-A)", A, EC.neg(A)), ("O+A", None, A), ("A+endo(-A)", A, (beta * A[0] % EC.P, (-A[1]) % EC.P)), ("A+endo2(-A)", A, (beta * beta * A[0] % EC.P, (-A[1]) % EC.P)), ("A+endo(A)", A, (beta * A[0] % EC.P, A[1])), ("endo2(A)+A", (beta * beta * A[0] % EC.P, A[1]), A)]
        for name, p1, p2 in pairs:
            try:
                got = ecmath.point_add(p1, p2)
                if (tuple(got) if got is not None else None) != EC.add(p1, p2):
                    viols.append(Violation("group-law", f"point_add {name}", f"a={a:#x} b={b:#x}: got {got} want {EC.add(p1, p2)}", {"via": "algebra"}))
                else:
                    probes.hit("algebra-add-ok")
            except Exception as e:
                viols.append(Violation("group-law", f"point_add {name} raised", f"{type(e).__name__}: {e}"[:200], {"via": "algebra"}))
        scalars = [0, 1, 2, N - 1, N, N + 1, N + 2, 2 * (N + 2) + 1, 3 * N + 2, 2**256 - 1, 2**256, 2**256 + 1, a + N, a * b, arng.getrandbits(300)]
        # prefixes that are multiples of n (the running sum passes through the identity), and a small multiple of G
        scalars += [2 * N, 2 * N + 1, 4 * N + 3, (N << 40) + 12345, (a % 1000) + 3]
        for k in arng.sample(scalars, 5):
            base = arng.choice([("G", G), ("B", B)])
            try:
                got = ecmath.point_scalar_mul(k, base[1])
                want = EC.mul(k, base[1])
                if (tuple(got) if got is not None else None) != want:
                    viols.append(Violation("group-law", f"point_scalar_mul k={'n+2' if k == N + 2 else hex(k)[:20]} P={base[0]}", f"k={k:#x}: got {got} want {want}", {"via": "algebra"}))
                else:
                    probes.hit("algebra-mul-ok")
            except Exception as e:
                viols.append(Violation("group-law", f"point_scalar_mul raised k={hex(k)[:20]}", f"{type(e).__name__}: {e}"[:200], {"via": "algebra"}))
    # injectivity: distinct accepted draws -> distinct keys
    by_key = {}
    for i, acc, k in made:
        by_key.setdefault(k, []).append((i, acc))
    for k in sorted(by_key):
        accs = {a for _, a in by_key[k]}
        if (buffered or None in accs) and len(set(ent.history)) < len(ent.history):
            continue  # buffering implementation and the source repeated itself somewhere in the run
        if len(accs) > 1:
            viols.append(Violation("key-collision", f"ops={[i for i, _ in by_key[k]]}", f"distinct draws {[hex(a) for a in sorted(accs)]} gave the same key {k:#x}"))
        elif len(by_key[k]) > 1:
            probes.hit("repeat-draw-same-key")
    seen = set()
    for v in viols:
        kk = (v.clause, v.key)
        if kk not in seen:
            seen.add(kk)
            res.violations.append(v.to_json())
    res.nontrivial = bool(sum(faults.values())) or sc["stratum"] in ("pairs",)
    res.digest = log.digest()
    res.steps = len(sc["ops"])
    res.stats["keys"] = len(made)
    res.stats["events"] = log.events if keep_events else None
    res.features = {"stratum": sc["stratum"]}
    return res


def merge_stats(agg, st, final=False):
    agg["keys"] = agg.get("keys", 0) + st.get("keys", 0)
    agg.setdefault("schedules", set())
    if "schedule" in st:
        agg["schedules"].add(st["schedule"])
    agg["schedules"] |= st.get("schedules", set())


def finalise_stats(st):
    return {
        "keys_generated_and_checked": st.get("keys", 0),
        "distinct_interleavings": len(st.get("schedules", ())) or None,
        "distinct_interleavings_measure": "distinct schedule tapes in the concurrent-callers stratum (no scheduler in the other strata)",
    }


def selfcheck():
    assert EC.selftest()


def shrink_candidates(scenario, tape):
    import copy

    ops = scenario["ops"]
    for i in range(len(ops) - 1, -1, -1):
        if len(ops) > 1:
            sc = copy.deepcopy(scenario)
            sc["ops"].pop(i)
            yield sc, tape
    for i, op in enumerate(ops):
        if op["via"] == "cli":
            sc = copy.deepcopy(scenario)
            sc["ops"][i]["via"] = "api"
            yield sc, tape
        if len(op["tape"]) > 1:
            sc = copy.deepcopy(scenario)
            sc["ops"][i]["tape"] = op["tape"][-1:]
            yield sc, tape


def sample(scenario):
    return {"stratum": scenario["stratum"], "ops": scenario["ops"][:6], "n_ops": len(scenario["ops"])}
