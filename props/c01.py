"""
C01 -- ECDSA signing: signatures verify, are canonical (low-S, strict DER), carry the
requested sighash byte, never reuse a nonce unless the random source repeats.

Real code under simulation: bits.sig, bits.sig_verify, bits.ecmath.sign / verify,
bits.utils.der_encode_sig / der_decode_sig (and everything below them).
Stub: the entropy source (secrets.* and os.urandom), scripted per operation.
There is no scheduler and no clock in this engine: the only nondeterminism is
what the random source returns, and the "faults" are boundary and repeated draws.
"""
import hashlib

from ref import ecdsa_der as DER
from ref import secp256k1 as EC
from sim.core import Counters, EventLog, HarnessError, RunResult, Violation, import_bits, sub_rng
from sim.rngsim import EntropyHang, EntropySeam, SimEntropy

PROPERTY = "C01"
LEVEL = "exploration"
ENGINE = "rngsim"
HAS_VIRTUAL_TIME = False
N = EC.N

TIERS = {
    "quick": {"runs": 400, "batch": 2, "ops": (4, 10), "wall_cap": 1500},
    "thorough": {"runs": 12000, "batch": 8, "ops": (4, 40)},
}

FLAGS = [0x01, 0x02, 0x03, 0x81, 0x82, 0x83]

COMPONENTS = {
    "real": [
        "bits.sig / bits.sig_verify",
        "bits.ecmath.sign / verify / point_scalar_mul / point_add / field helpers",
        "bits.utils.der_encode_sig / der_decode_sig / privkey_int / point, bits.pem ASN.1 codec, bits.crypto.hash256",
    ],
    "stub": [
        "thread scheduler for the concurrent stratum (2-3 simulated caller threads, line-level pre-emption inside ecmath/utils/keys, package re-imported per run)",
        "process fork: a real os.fork() of the simulated signing process at planned points of the history; the child gets its own seeded entropy stream (the kernel never hands two processes the same bytes), signs, reports through a pipe and exits",
        "entropy source: secrets.randbelow/token_bytes/randbits/choice and os.urandom, scripted by a per-operation tape (boundary draws 0, 1, n-1, n-2; repeated draws; chosen nonces)"],
}
RULE = (
    "one evaluation = one seeded history of signing operations by 1-4 simulated signers (plain-message, preimage and raw-digest modes; digests incl. 0, n-1, n, n+1, 2^256-1 and digests "
    "crafted from the known next draw to force s=0 retries, low-S negation and short / high-bit r,s for DER) under a scripted entropy tape; every signature is checked by the library's "
    "verifiers, an independent Jacobian-coordinate ECDSA verifier, OpenSSL, a BIP66 checker, and the history is checked for shared r values. non-trivial = a boundary/repeated draw fired "
    "or a crafted digest hit its branch; distinct = distinct SHA-256 of the event log (draws, results)"
)
ASSUMPTIONS = [
    "reference secp256k1/ECDSA in /verif/ref/secp256k1.py and BIP66 checker in /verif/ref/ecdsa_der.py (pinned to fixed points; OpenSSL used as a third verifier when importable)",
    "the random source honours its contract (never returns a value >= bound); it may return any in-range value, including 0, and may repeat itself",
    "the r == 0 retry is unreachable (needs the discrete log of a point with x = 0 mod n)",
    "a call that draws more than 64 times, or more than 4 times after the last injected zero draw / s=0 digest, counts as not terminating",
]

_mods = None
_openssl = None


def mods():
    global _mods, _openssl
    if _mods is None:
        bits = import_bits()
        import logging

        import bits.ecmath
        import bits.keys
        import bits.utils

        logging.disable(logging.CRITICAL)
        _mods = (bits, bits.ecmath, bits.keys, bits.utils)
        try:
            from cryptography.exceptions import InvalidSignature
            from cryptography.hazmat.primitives import hashes
            from cryptography.hazmat.primitives.asymmetric import ec, utils as asym_utils

            def verify(pub_bytes, der, digest32):
                key = ec.EllipticCurvePublicKey.from_encoded_point(ec.SECP256K1(), pub_bytes)
                try:
                    key.verify(der, digest32, ec.ECDSA(asym_utils.Prehashed(hashes.SHA256())))
                    return True
                except InvalidSignature:
                    return False

            _openssl = verify
        except ImportError:
            _openssl = None
    return _mods


# --------------------------------------------------------------------------- plan
def _key(rng, cls):
    if cls == "one":
        return 1
    if cls == "n-1":
        return N - 1
    if cls == "small":
        return rng.getrandbits(rng.choice([8, 64, 128, 200])) or 1
    if cls == "high":
        return N - 1 - rng.getrandbits(64)
    return rng.randrange(1, N)


def _s_targets(rng):
    out = [1, 2, N // 2, N // 2 + 1, N - 1, N - 2]
    for nbytes in (31, 30, 24, 16, 8, 2, 1):
        hi = 0x80 | rng.getrandbits(7)
        lo = rng.getrandbits(7) | 1
        rest = rng.getrandbits(8 * (nbytes - 1)) if nbytes > 1 else 0
        out.append((hi << (8 * (nbytes - 1))) | rest)  # top bit of the leading byte set
        out.append((lo << (8 * (nbytes - 1))) | rest)  # clear
    out += [N - x for x in out[6:]]  # the same after low-S negation
    return out


def plan(seed, tier="quick", index=0):
    if sub_rng(seed, "fork-stratum").random() < FORK_P:
        return _plan_fork(seed)
    rng = sub_rng(seed, "plan")
    lo, hi = TIERS.get(tier, TIERS["quick"])["ops"]
    nops = rng.randrange(lo, hi + 1)
    nsign = rng.choice([1, 2, 2, 3, 4])
    classes = ["one", "n-1", "small", "small", "high", "random", "random", "random"]
    signers = [hex(_key(rng, rng.choice(classes))) for _ in range(nsign)]
    msgs = [rng.getrandbits(8 * l).to_bytes(l, "big").hex() if l else "" for l in [rng.choice([0, 1, 32, 33, 100, 51, 52, 55, 56, 59, 60, 63, 64, 119, 120, 1000]) for _ in range(3)]]
    if nsign < 4 and rng.random() < 0.3:
        # a key and its negation share the x coordinate of their public keys
        signers.append(hex(N - int(rng.choice(signers), 16)))
        nsign += 1
    stratum = rng.choice(["random-tape", "boundary-draws", "crafted", "crafted", "repeats", "mixed", "concurrent", "entropy-fault"])
    if stratum == "concurrent":
        return _plan_concurrent(seed, rng, signers, msgs)
    long_run = rng.random() < 0.006
    if long_run:
        # one signer, hundreds of signatures: counters, reseed thresholds and wrap-arounds that
        # short histories never reach (library verification is skipped for these to keep it affordable)
        stratum, nops, nsign, signers = "long", rng.choice([130, 260, 300]), 1, signers[:1]
    ops = []
    for i in range(nops):
        signer = rng.randrange(nsign)
        d = int(signers[signer], 16)
        kind = stratum if stratum != "mixed" else rng.choice(["random-tape", "boundary-draws", "crafted", "repeats"])
        mode = rng.choice(["sig", "sig", "sig", "sig-pre", "sig-pre-noflag", "raw", "raw"])
        if long_run:
            mode = "raw"
        op = {"signer": signer, "mode": mode, "flag": rng.choice(FLAGS), "tape": [], "craft": None}
        op["msg"] = rng.choice(msgs) if rng.random() < 0.5 else rng.getrandbits(256).to_bytes(32, "big").hex()
        if mode == "raw":
            op["digest"] = hex(rng.choice([0, 1, N - 1, N, N + 1, 2**256 - 1, rng.getrandbits(256), rng.getrandbits(256)]))
        elif rng.random() < 0.12:
            # a message that already ends in the 4 bytes of a sighash flag (e.g. a legacy
            # transaction with nLockTime = 1 signed with SIGHASH_ALL): the flag is still appended
            tail = rng.choice([op["flag"], op["flag"], 1, 0x81]).to_bytes(4, "little")
            op["msg"] = (bytes.fromhex(op["msg"]) + tail).hex()
        if kind == "boundary-draws":
            pre = rng.choice([[], ["ZERO"], ["ZERO", "ZERO"], ["ZERO"] * rng.randrange(3, 7)])
            op["tape"] = pre + [rng.choice(["ONE", "BOUND-1", "BOUND-2", "MID", None])]
            op["tape"] = [t for t in op["tape"] if t is not None]
        elif kind == "repeats" and i > 0:
            op["tape"] = [rng.choice(["REPEAT-LAST", {"repeat": rng.randrange(0, i)}])]
            if rng.random() < 0.5 and ops:
                # same message under another key, or same key with another message
                op["msg"] = ops[-1]["msg"] if rng.random() < 0.5 else op["msg"]
        elif kind == "entropy-fault":
            # the OS entropy source fails for a stretch of operations (the draw raises OSError)
            if nops // 3 <= i < nops // 3 + max(2, nops // 2):
                op["tape"] = ["RAISE"] * 8
                op["signer"] = signer = 0 if rng.random() < 0.7 else signer
                op["msg"] = rng.getrandbits(256).to_bytes(32, "big").hex()
        elif kind == "crafted":
            op["mode"] = "raw"
            k = rng.choice([1, 2, 3, N - 1, rng.randrange(1, N), rng.randrange(1, N)])
            R = EC.mul(k)
            r = R[0] % N
            pre = rng.choice([[], [], ["ZERO"], ["ZERO", "ZERO", "ZERO"]])
            if rng.random() < 0.2:
                # digest = r*d: in verification u1*G and u2*P are the same point, the final
                # addition is a doubling (the classic special case of ECDSA verifiers)
                z = (r * d) % N
                op["craft"] = "verify-doubling"
                op["tape"] = pre + [{"v": hex(k)}]
            elif rng.random() < 0.25:
                z = (-r * d) % N
                op["craft"] = "s-zero-first"
                op["tape"] = pre + [{"v": hex(k)}] + rng.choice([[], ["ZERO"]]) + [{"v": hex(rng.randrange(1, N))}]
            else:
                st = rng.choice(_s_targets(rng))
                z = (st * k - r * d) % N
                op["craft"] = "s-target"
                op["s_target"] = hex(st)
                op["tape"] = pre + [{"v": hex(k)}]
            if z + N < 2**256 and rng.random() < 0.3:
                z += N
            op["digest"] = hex(z)
        ops.append(op)
    return {"property": PROPERTY, "seed": seed, "stratum": stratum, "signers": signers, "ops": ops}


import os as _os

FORK_P = float(_os.environ.get("C01_FORK_P", "0.07"))  # share of runs in the fork stratum (the self-tests force it)


def _plan_fork(seed):
    """The signing process forks (a pre-forking server, multiprocessing with the fork start
    method) at arbitrary points of a signing history; parent and children go on signing.  All
    userland state is duplicated by the fork; the kernel's entropy source is not - it hands
    different bytes to different processes."""
    rng = sub_rng(seed, "plan-fork")
    nsign = rng.choice([1, 1, 2, 3])
    signers = [hex(_key(rng, rng.choice(["small", "high", "random", "random"]))) for _ in range(nsign)]

    def seg(lo, hi):
        out = []
        for _ in range(rng.randrange(lo, hi + 1)):
            mode = rng.choice(["sig", "sig", "raw"])
            op = {"signer": rng.randrange(nsign), "mode": mode, "flag": rng.choice(FLAGS), "msg": rng.getrandbits(256).to_bytes(32, "big").hex()}
            if mode == "raw":
                op["digest"] = hex(rng.getrandbits(256))
            out.append(op)
        return out

    # parent segments separated by fork points; one child per fork point
    nforks = rng.choice([1, 1, 2])
    parent = [seg(0, 3) if rng.random() < 0.5 else seg(1, 2)] + [seg(1, 3) for _ in range(nforks)]
    children = [seg(1, 3) for _ in range(nforks)]
    return {"property": PROPERTY, "seed": seed, "stratum": "fork", "signers": signers, "parent": parent, "children": children, "ops": []}


def _execute_fork(sc, keep_events):
    import json
    import os
    import signal

    from sim import callersim

    mods()
    bits, (ecmath, keys, utils) = callersim.fresh_bits()
    res = RunResult()
    res.stratum = "fork"
    log = EventLog(keep=keep_events)
    faults, probes = res.faults, res.probes
    ent = SimEntropy(log, sub_rng(sc["seed"], "entropy"))
    signers = [int(x, 16) for x in sc["signers"]]
    viols = []

    def segment(who, ops):
        """Sign `ops`; returns JSON-able records [who, i, signer, z, r, s, error]."""
        out = []
        for i, op in enumerate(ops):
            d = signers[op["signer"]]
            msg = bytes.fromhex(op["msg"])
            if op["mode"] == "raw":
                z_in = int(op["digest"], 16)
            else:
                z_in = int.from_bytes(hashlib.sha256(hashlib.sha256(msg + op["flag"].to_bytes(4, "little")).digest()).digest(), "big")
            ent.begin_op([])
            try:
                if op["mode"] == "raw":
                    r, s = ecmath.sign(d, z_in)
                    der = utils.der_encode_sig(r, s)
                else:
                    der = bits.sig(d.to_bytes(32, "big"), msg, op["flag"])[:-1]
                if not DER.is_strict_der(der + b"\x01"):
                    out.append([who, i, op["signer"], hex(z_in % N), None, None, "der-not-strict " + der.hex()])
                    continue
                r, s = DER.parse(der)
                out.append([who, i, op["signer"], hex(z_in % N), hex(r), hex(s), None])
            except EntropyHang as e:
                out.append([who, i, op["signer"], hex(z_in % N), None, None, f"hang {e}"])
            except Exception as e:
                out.append([who, i, op["signer"], hex(z_in % N), None, None, f"raised {type(e).__name__}: {e}"[:200]])
        return out

    records = []
    draws = []  # everything every process drew from its source
    with EntropySeam(ent, [ecmath, keys, utils]):
        records += segment("parent-0", sc["parent"][0])
        for c, child_ops in enumerate(sc["children"]):
            rfd, wfd = os.pipe()
            pid = os.fork()
            if pid == 0:
                # ---- child: all library state is inherited; its kernel entropy is its own
                try:
                    os.close(rfd)
                    signal.alarm(300)
                    ent.rng = sub_rng(sc["seed"], f"entropy-child-{c}")
                    ent.log = EventLog(keep=False)
                    n0 = len(ent.history)
                    out = {"records": segment(f"child-{c}", child_ops), "draws": [hex(v) for v in ent.history[n0:]]}
                    data = json.dumps(out).encode()
                except BaseException as e:  # noqa
                    data = json.dumps({"error": f"{type(e).__name__}: {e}"[:300]}).encode()
                try:
                    while data:
                        k = os.write(wfd, data)
                        data = data[k:]
                finally:
                    os._exit(0)
            os.close(wfd)
            faults.hit("process-fork")
            buf = b""
            while True:
                chunk = os.read(rfd, 65536)
                if not chunk:
                    break
                buf += chunk
            os.close(rfd)
            os.waitpid(pid, 0)
            try:
                got = json.loads(buf.decode())
            except ValueError:
                raise HarnessError(f"forked child {c} returned no result ({len(buf)} bytes)")
            if "error" in got:
                raise HarnessError(f"forked child {c}: {got['error']}")
            records += got["records"]
            draws += [int(v, 16) for v in got["draws"]]
            log.add(c, "fork", "child-done", (len(got["records"]), len(got["draws"])))
            records += segment(f"parent-{c + 1}", sc["parent"][c + 1])
    draws += ent.history
    sigs = []
    for who, i, signer, z, r, s_, err in records:
        where = f"{who} op={i}"
        if err:
            clause = "nontermination" if err.startswith("hang") else "der-not-strict" if err.startswith("der") else "sign-raised"
            viols.append(Violation(clause, where, err + " (forking process)"))
            continue
        z, r, s_ = int(z, 16), int(r, 16), int(s_, 16)
        log.add(i, who, "sig", (hex(r)[:18], hex(s_)[:18]))
        if not (1 <= r < N and 1 <= s_ < N):
            viols.append(Violation("range", where, f"r={r:#x} s={s_:#x}"))
        elif s_ > N // 2:
            viols.append(Violation("high-s", where, f"s={s_:#x}"))
        if not EC.ecdsa_verify(EC.mul(signers[signer]), z, r, s_):
            viols.append(Violation("invalid-signature", where, f"reference verifier rejects r={r:#x} s={s_:#x} z={z:#x} (forking process)"))
        sigs.append((where, signers[signer], z, r))
    source_repeated = len(set(draws)) < len(draws)
    for a in range(len(sigs)):
        for b in range(a + 1, len(sigs)):
            A, B = sigs[a], sigs[b]
            if A[3] != B[3] or (A[1], A[2]) == (B[1], B[2]):
                continue
            if source_repeated:
                probes.hit("repeat-draw-exempted")
                continue
            viols.append(Violation("nonce-reuse", f"{A[0]} / {B[0]}", f"same r={A[3]:#x} for different (key, digest) in a process and its fork child although no source repeated a draw"))
    if any(w.startswith("child") for w, *_ in records):
        probes.hit("signed-in-fork-child")
    seen = set()
    for v in viols:
        kk = (v.clause, v.key)
        if kk not in seen:
            seen.add(kk)
            res.violations.append(v.to_json())
    res.nontrivial = True
    res.digest = log.digest()
    res.steps = len(records)
    res.stats["signatures"] = len(sigs)
    res.stats["events"] = log.events if keep_events else None
    res.features = {"stratum": "fork"}
    return res


def _plan_concurrent(seed, rng, signers, msgs):
    """2-3 caller threads signing at the same time (shared module state is the target)."""
    nthreads = rng.choice([2, 2, 3])
    threads = []
    for t in range(nthreads):
        ops = []
        for _ in range(rng.choice([1, 1, 2])):
            mode = rng.choice(["sig", "sig-pre", "raw"])
            op = {"signer": rng.randrange(len(signers)), "mode": mode, "flag": rng.choice(FLAGS), "msg": rng.choice(msgs) if rng.random() < 0.5 else rng.getrandbits(256).to_bytes(32, "big").hex()}
            if mode == "raw":
                op["digest"] = hex(rng.choice([0, N, 2**256 - 1, rng.getrandbits(256), rng.getrandbits(256)]))
            ops.append(op)
        threads.append(ops)
    horizon = 22000 * sum(len(t) for t in threads)
    strategy = rng.choice(
        [
            ["random", 0.0003, 0.0003],
            ["random", 0.002, 0.002],
            ["random", 0.01, 0.01],
            ["hold", 1, horizon, 60000],
            ["hold", 2, horizon, 60000],
            ["hold", 3, horizon, 20000],
            ["pct", 1, horizon],
            ["pct", 2, horizon],
            ["rr", rng.choice([50, 500, 5000])],
        ]
    )
    return {"property": PROPERTY, "seed": seed, "stratum": "concurrent", "signers": signers, "threads": threads, "strategy": strategy, "ops": []}


def _execute_concurrent(sc, tape, keep_events):
    from sim import callersim

    res = RunResult()
    res.stratum = "concurrent"
    log = EventLog(keep=keep_events)
    faults, probes = res.faults, res.probes
    bits, (ecmath, keys, utils) = callersim.fresh_bits()
    global _mods
    _mods = None  # the cached modules are stale now
    ent = SimEntropy(log, sub_rng(sc["seed"], "entropy"), max_draws_per_op=10**9)
    signers = [int(x, 16) for x in sc["signers"]]
    pubs = [(EC.mul(d), EC.pub_bytes(d, True), EC.pub_bytes(d, False)) for d in signers]
    per_thread_draws = {}
    results = {}
    holder = {}
    orig_randbelow = ent.randbelow

    def randbelow(bound):
        v = orig_randbelow(bound)
        per_thread_draws.setdefault(holder["sched"].me(), []).append(v)
        return v

    ent.randbelow = randbelow

    def make(ti, ops):
        def body():
            for oi, op in enumerate(ops):
                d = signers[op["signer"]]
                key = d.to_bytes(32, "big")
                msg = bytes.fromhex(op["msg"])
                pre = msg + op["flag"].to_bytes(4, "little")
                n0 = len(per_thread_draws.get(holder["sched"].me(), []))
                try:
                    if op["mode"] == "raw":
                        out = ("rs", ecmath.sign(d, int(op["digest"], 16)))
                    elif op["mode"] == "sig":
                        out = ("sig", bits.sig(key, msg, op["flag"]))
                    else:
                        out = ("sig", bits.sig(key, pre, op["flag"], msg_preimage=True))
                except Exception as e:  # noqa
                    out = ("raised", f"{type(e).__name__}: {e}"[:200])
                results[(ti, oi)] = (out, per_thread_draws.get(holder["sched"].me(), [])[n0:])

        return body

    fns = [make(ti, ops) for ti, ops in enumerate(sc["threads"])]
    from sim import sched as S

    class _Defer:
        pass

    with EntropySeam(ent, [ecmath, keys, utils]):
        # the scheduler object is created inside run_callers; expose it to the closures
        orig_init = S.Sched.__init__

        def init(self, *a, **k):
            orig_init(self, *a, **k)
            holder["sched"] = self

        S.Sched.__init__ = init
        try:
            sched, died = callersim.run_callers(sub_rng(sc["seed"], "sched"), log, fns, sc["strategy"], [ecmath.__file__, utils.__file__, keys.__file__], tape=tape)
        except S.StepCapExceeded as e:
            res.violations.append(Violation("nontermination", "concurrent callers", str(e)).to_json())
            res.digest = log.digest()
            res.nontrivial = True
            return res
        finally:
            S.Sched.__init__ = orig_init
    viols = []
    for ti, exc in enumerate(died):
        if exc is not None:
            viols.append(Violation("sign-raised", f"thread={ti}", f"caller thread died: {exc!r}", {"mode": "concurrent"}))
    records = []
    for (ti, oi) in sorted(results):
        op = sc["threads"][ti][oi]
        (kind, val), drawn = results[(ti, oi)]
        d = signers[op["signer"]]
        P, pub_c, pub_u = pubs[op["signer"]]
        msg = bytes.fromhex(op["msg"])
        pre = msg + op["flag"].to_bytes(4, "little")
        feats = {"mode": "concurrent-" + op["mode"], "craft": "", "key_class": "other", "digest_class": ""}
        where = f"thread={ti} op={oi} mode={op['mode']}"
        if op["mode"] == "raw":
            z_in = int(op["digest"], 16)
        else:
            z_in = int.from_bytes(hashlib.sha256(hashlib.sha256(pre).digest()).digest(), "big")
        z = z_in % N
        if kind == "raised":
            viols.append(Violation("sign-raised", where, val, feats))
            continue
        if kind == "sig":
            der, tail = val[:-1], val[-1]
            if tail != op["flag"]:
                viols.append(Violation("sighash-byte", where, f"appended {tail:#x}, requested {op['flag']:#x}", feats))
        else:
            try:
                der = utils.der_encode_sig(*val)
            except Exception as e:
                viols.append(Violation("der-encode-raised", where, f"{type(e).__name__}: {e}", feats))
                continue
        if not DER.is_strict_der(der + b"\x01"):
            viols.append(Violation("der-not-strict", where, f"der={der.hex()}", feats))
            continue
        r, s = DER.parse(der)
        log.add(ti, "op", "sig", (oi, hex(r)[:18], hex(s)[:18]))
        if not (1 <= r < N and 1 <= s < N):
            viols.append(Violation("range", where, f"r={r:#x} s={s:#x}", feats))
        elif s > N // 2:
            viols.append(Violation("high-s", where, f"s={s:#x}", feats))
        if not EC.ecdsa_verify(P, z, r, s):
            viols.append(Violation("invalid-signature", where, f"reference verifier rejects r={r:#x} s={s:#x} z={z:#x} (concurrent callers)", feats))
        else:
            probes.hit("concurrent-signature-valid")
        try:
            if op["mode"] == "raw":
                if ecmath.verify(r, s, P, z_in) is not True:
                    viols.append(Violation("lib-verify-failed", where, "ecmath.verify", feats))
            else:
                st = bits.sig_verify(val, pub_c, msg if op["mode"] == "sig" else pre, msg_preimage=op["mode"] != "sig")
                if st != "OK":
                    viols.append(Violation("lib-verify-failed", where, f"sig_verify -> {st!r}", feats))
        except Exception as e:
            viols.append(Violation("lib-verify-failed", where, f"raised {type(e).__name__}: {e}"[:200], feats))
        records.append(((ti, oi), op["signer"], z, r, drawn[-1] if drawn else None))
    for a in range(len(records)):
        for b in range(a + 1, len(records)):
            A, B = records[a], records[b]
            if A[3] != B[3] or ((signers[A[1]], A[2]) == (signers[B[1]], B[2])):
                continue
            if A[4] is not None and B[4] is not None and (A[4] == B[4] or (A[4] + B[4]) % N == 0):
                continue
            viols.append(Violation("nonce-reuse", f"ops={A[0]},{B[0]}", f"same r={A[3]:#x} for different (key, digest) although the source did not repeat (concurrent callers): draws {A[4]} vs {B[4]}"))
    seen = set()
    for v in viols:
        kk = (v.clause, v.key)
        if kk not in seen:
            seen.add(kk)
            res.violations.append(v.to_json())
    faults.hit("preemptive-switch", sched.switches)
    res.nontrivial = sched.switches >= 2
    res.digest = log.digest()
    res.tape = sched.tape_out
    res.steps = sched.steps
    res.stats["schedule"] = hashlib.sha256(repr(sched.tape_out).encode()).hexdigest()[:16]
    res.stats["signatures"] = len(records)
    res.stats["events"] = log.events if keep_events else None
    res.features = {"stratum": "concurrent"}
    return res


# --------------------------------------------------------------------------- execute
def _digest_class(z):
    if z in (0, 1, N - 1, N, N + 1, 2**256 - 1):
        return {0: "0", 1: "1", N - 1: "n-1", N: "n", N + 1: "n+1", 2**256 - 1: "2^256-1"}[z]
    return ">=n" if z >= N else "<n"


def execute(scenario, tape=None, keep_events=False):
    if scenario["stratum"] == "concurrent":
        return _execute_concurrent(scenario, tape, keep_events)
    if scenario["stratum"] == "fork":
        return _execute_fork(scenario, keep_events)
    mods()  # (OpenSSL binding, logging off)
    from sim import callersim

    # every run starts from a freshly imported package: state left in module-level caches
    # by an earlier run of this worker must not leak into this one
    bits, (ecmath, keys, utils) = callersim.fresh_bits()
    sc = scenario
    res = RunResult()
    res.stratum = sc["stratum"]
    log = EventLog(keep=keep_events)
    faults, probes = res.faults, res.probes
    ent = SimEntropy(log, sub_rng(sc["seed"], "entropy"))
    ent.faults = faults
    viols = []
    records = []
    buffered = False
    signers = [int(x, 16) for x in sc["signers"]]
    pubs = [(EC.mul(d), EC.pub_bytes(d, True), EC.pub_bytes(d, False)) for d in signers]
    with EntropySeam(ent, [ecmath, keys, utils]):
        for i, op in enumerate(sc["ops"]):
            d = signers[op["signer"]]
            P, pub_c, pub_u = pubs[op["signer"]]
            key = d.to_bytes(32, "big")
            mode = op["mode"]
            flag = op["flag"]
            msg = bytes.fromhex(op["msg"])
            feats = {"mode": mode, "craft": op.get("craft") or "", "key_class": "1" if d == 1 else "n-1" if d == N - 1 else "other"}
            if mode == "raw":
                z_in = int(op["digest"], 16)
            else:
                pre = msg + flag.to_bytes(4, "little")
                z_in = int.from_bytes(hashlib.sha256(hashlib.sha256(pre).digest()).digest(), "big")
            z = z_in % N
            feats["digest_class"] = _digest_class(z_in)
            if z_in >= N:
                probes.hit("digest>=n")
            if d in (1, N - 1):
                probes.hit("key-" + feats["key_class"])
            where = f"op={i} mode={mode}"

            def do_sign():
                if mode == "raw":
                    r_, s_ = ecmath.sign(d, z_in)
                    return (r_, s_), None
                if mode == "sig":
                    return None, bits.sig(key, msg, flag)
                if mode == "sig-pre":
                    return None, bits.sig(key, pre, flag, msg_preimage=True)
                return None, bits.sig(key, pre, msg_preimage=True)

            ent.begin_op(op["tape"])
            n_hist = len(ent.history)
            try:
                rs, sig = do_sign()
            except EntropyHang as e:
                viols.append(Violation("nontermination", where, f"{e}; tape={op['tape']}", feats))
                log.add(i, "op", "hang", "")
                continue
            except HarnessError:
                raise
            except Exception as e:
                if "RAISE" in op["tape"] and faults.get("entropy-unavailable", 0):
                    # under an injected entropy failure the call may fail; it must not return a bad signature
                    probes.hit("refused-under-entropy-fault")
                    log.add(i, "op", "refused", type(e).__name__)
                    continue
                viols.append(Violation("sign-raised", where + f" digest={feats['digest_class']}", f"{type(e).__name__}: {e}"[:300], feats))
                log.add(i, "op", "raised", type(e).__name__)
                continue
            drawn = ent.history[n_hist:]
            if not drawn and ent.op_draws == 0 and "RAISE" not in op["tape"]:
                if ent.draws:
                    # entropy was consumed earlier in this run but not by this call: the
                    # implementation buffers what it reads from the source (legal)
                    probes.hit("buffered-entropy")
                    buffered = True
                else:
                    # no entropy consumed at all: must be a deterministic implementation
                    ent.begin_op(op["tape"])
                    rs2, sig2 = do_sign()
                    if (rs2, sig2) != (rs, sig) and not ent.draws:
                        raise HarnessError("signing consumed no simulated entropy yet is not deterministic: entropy by-passes the seam")
                    probes.hit("deterministic-signing")
            # -- decode
            if sig is not None:
                der, tail = sig[:-1], sig[-1]
                if tail != flag:
                    viols.append(Violation("sighash-byte", where, f"appended {tail:#x}, requested {flag:#x}", feats))
            else:
                try:
                    der = utils.der_encode_sig(*rs)
                except Exception as e:
                    viols.append(Violation("der-encode-raised", where, f"{type(e).__name__}: {e} for r,s={rs}", feats))
                    continue
            strict = DER.is_strict_der(der + b"\x01")
            if not strict:
                viols.append(Violation("der-not-strict", where, f"der={der.hex()}", feats))
                if rs is None:
                    log.add(i, "op", "bad-der", der.hex())
                    continue
                r, s = rs
            else:
                r, s = DER.parse(der)
                if rs is not None and (r, s) != rs:
                    viols.append(Violation("der-roundtrip", where, f"encoded {rs}, DER holds {(r, s)}", feats))
                    r, s = rs
                try:
                    back = utils.der_decode_sig(der)
                    if tuple(back) != (r, s):
                        viols.append(Violation("der-roundtrip", where, f"der_decode_sig gives {back}, DER holds {(r, s)}", feats))
                except Exception as e:
                    viols.append(Violation("der-roundtrip", where, f"der_decode_sig raised {type(e).__name__}: {e}", feats))
            log.add(i, "op", "sig", (hex(r)[:18], hex(s)[:18], len(der)))
            # -- ranges, low-S
            if not (1 <= r < N and 1 <= s < N):
                viols.append(Violation("range", where, f"r={r:#x} s={s:#x}", feats))
            elif s > N // 2:
                viols.append(Violation("high-s", where, f"s={s:#x}", feats))
            # -- reference verifiers
            if not EC.ecdsa_verify(P, z, r, s):
                viols.append(Violation("invalid-signature", where + f" digest={feats['digest_class']}", f"reference verifier rejects r={r:#x} s={s:#x} z={z:#x}", feats))
            if _openssl is not None and strict:
                if not _openssl(pub_c, der, z_in.to_bytes(32, "big")):
                    viols.append(Violation("invalid-signature-openssl", where + f" digest={feats['digest_class']}", f"OpenSSL rejects der={der.hex()}", feats))
                else:
                    probes.hit("openssl-accepts")
            # -- the library's own verifiers
            if sc["stratum"] == "long" and i % 40:
                records.append((i, op["signer"], z, r, drawn[-1] if drawn else None, len(drawn)))
                continue
            try:
                if mode == "raw":
                    ok = ecmath.verify(r, s, P, z_in)
                    if ok is not True:
                        viols.append(Violation("lib-verify-failed", where + f" digest={feats['digest_class']}", f"ecmath.verify returned {ok!r}", feats))
                else:
                    vmsg, pre_flag = (msg, False) if mode == "sig" else (pre, True)
                    for pk, name in ((pub_c, "compressed"),) + (((pub_u, "uncompressed"),) if i % 3 == 0 else ()):
                        st = bits.sig_verify(sig, pk, vmsg, msg_preimage=pre_flag)
                        if st != "OK":
                            viols.append(Violation("lib-verify-failed", where + f" pub={name}", f"sig_verify -> {st!r}; sig={sig.hex()}", feats))
            except Exception as e:
                viols.append(Violation("lib-verify-failed", where + f" digest={feats['digest_class']}", f"raised {type(e).__name__}: {e}"[:300], feats))
            # -- liveness after the last injected fault
            tape_vals = op["tape"]
            zero_idx = [j for j, v in enumerate(drawn) if v == 0]
            last_fault = zero_idx[-1] if zero_idx else -1
            if op.get("craft") == "s-zero-first":
                kk = int([t for t in tape_vals if isinstance(t, dict)][0]["v"], 16)
                if kk in drawn:
                    last_fault = max(last_fault, drawn.index(kk))
                    if len(drawn) > drawn.index(kk) + 1:
                        probes.hit("s-zero-retry")
            if zero_idx:
                probes.hit("nonce-draw-zero-retry")
            if len(drawn) - 1 - last_fault > 4:
                viols.append(Violation("nontermination", where, f"{len(drawn) - 1 - last_fault} draws after the last injected fault; tape={tape_vals}", feats))
            # -- branch probes (only meaningful when the accepted draw is the nonce)
            acc = drawn[-1] if drawn else None
            if acc:
                raw = EC.ecdsa_sign_with_k(d, z, acc)
                if raw and raw[0] == r:
                    probes.hit("nonce-equals-accepted-draw")
                    if raw[1] > N // 2:
                        probes.hit("s-negated")
            rb = r.to_bytes((r.bit_length() + 7) // 8 or 1, "big")
            sb = s.to_bytes((s.bit_length() + 7) // 8 or 1, "big")
            if rb[0] & 0x80:
                probes.hit("der-r-padded")
            if sb[0] & 0x80:
                probes.hit("der-s-padded")
            if len(sb) < 32:
                probes.hit("s-shorter-than-32-bytes")
            if len(rb) < 32:
                probes.hit("r-shorter-than-32-bytes")
            records.append((i, op["signer"], z, r, acc, len(drawn)))
    # -- history oracle: shared r only if the source repeated itself
    by_r = {}
    for rec in records:
        by_r.setdefault(rec[3], []).append(rec)
    for r in sorted(by_r):
        grp = by_r[r]
        for a in range(len(grp)):
            for b in range(a + 1, len(grp)):
                A, B = grp[a], grp[b]
                if (A[1], A[2]) == (B[1], B[2]):
                    continue
                if signers[A[1]] == signers[B[1]] and A[2] == B[2]:
                    continue
                # k and n-k give the same r (x(kG) = x(-kG)): a source returning n-k after k
                # has, for this purpose, repeated itself
                if A[4] is not None and B[4] is not None and (A[4] == B[4] or (A[4] + B[4]) % N == 0):
                    probes.hit("repeat-draw-exempted")
                    continue
                if (buffered or A[4] is None or B[4] is None) and len(set(ent.history)) < len(ent.history):
                    # an implementation that buffers its reads: which bytes fed which signature is
                    # not observable, so any repetition in the source's output exempts the run
                    probes.hit("repeat-draw-exempted")
                    continue
                viols.append(Violation("nonce-reuse", f"ops={A[0]},{B[0]}", f"same r={r:#x} for different (key, digest) although the source did not repeat: draws {A[4]} vs {B[4]}"))
    seen = set()
    for v in viols:
        kk = (v.clause, v.key)
        if kk not in seen:
            seen.add(kk)
            res.violations.append(v.to_json())
    res.nontrivial = bool(sum(faults.values())) or any(op.get("craft") for op in sc["ops"])
    res.digest = log.digest()
    res.steps = len(sc["ops"])
    res.stats["signatures"] = len(records)
    res.stats["events"] = log.events if keep_events else None
    res.features = {"stratum": sc["stratum"]}
    return res


def merge_stats(agg, st, final=False):
    agg["signatures"] = agg.get("signatures", 0) + st.get("signatures", 0)
    agg.setdefault("schedules", set())
    if "schedule" in st:
        agg["schedules"].add(st["schedule"])
    agg["schedules"] |= st.get("schedules", set())


def finalise_stats(st):
    return {
        "signatures_checked": st.get("signatures", 0),
        "openssl_second_verifier": "see probes['openssl-accepts'] (count of signatures OpenSSL verified)",
        "distinct_interleavings": len(st.get("schedules", ())) or None,
        "distinct_interleavings_measure": "distinct schedule tapes in the concurrent-callers stratum (no scheduler in the other strata)",
    }


def selfcheck():
    assert EC.selftest() and DER.selftest()


def shrink_candidates(scenario, tape):
    import copy

    if scenario["stratum"] == "fork":
        if len(scenario["children"]) > 1:
            for c in range(len(scenario["children"])):
                sc = copy.deepcopy(scenario)
                sc["children"].pop(c)
                sc["parent"][c] += sc["parent"].pop(c + 1)
                yield sc, tape
        for name in ("parent", "children"):
            for j, seg in enumerate(scenario[name]):
                for i in range(len(seg) - 1, -1, -1):
                    sc = copy.deepcopy(scenario)
                    sc[name][j].pop(i)
                    yield sc, tape
        return
    ops = scenario["ops"]
    for i in range(len(ops) - 1, -1, -1):
        if len(ops) > 1:
            sc = copy.deepcopy(scenario)
            sc["ops"].pop(i)
            # repeat directives refer to draw indices: keep them in range
            yield sc, tape
    for i, op in enumerate(ops):
        if op["tape"]:
            sc = copy.deepcopy(scenario)
            sc["ops"][i]["tape"] = [t for t in op["tape"] if t != "ZERO"]
            if sc["ops"][i]["tape"] != op["tape"]:
                yield sc, tape


def sample(scenario):
    if scenario["stratum"] == "fork":
        return {"stratum": "fork", "signers": scenario["signers"], "parent": [len(x) for x in scenario["parent"]], "children": [len(x) for x in scenario["children"]]}
    return {"stratum": scenario["stratum"], "signers": scenario["signers"], "ops": scenario["ops"][:4], "n_ops": len(scenario["ops"])}
