"""
C19 -- block file store: every block once, in order, bounded append-only files,
crash leaves a prefix.

Real code under simulation: bits.p2p.write_blocks_to_disk (with CPython's real
io.BufferedWriter on top of the simulated raw file).
Stubs: file system (SimFS), process crash / restart, directory order.
"""
import gc
import hashlib
import importlib

from ref import blockfiles as BF
from sim.core import Counters, EventLog, HarnessError, RunResult, Violation, import_bits, sub_rng
from sim.fssim import SimCrash, SimFS

PROPERTY = "C19"
LEVEL = "fault_enumeration"
ENGINE = "fssim"
HAS_VIRTUAL_TIME = False

TIERS = {
    "quick": {"runs": 6000, "batch": 50, "cap": 120},
    "thorough": {"runs": 400000, "batch": 500, "cap": 500},
}

MAGICS = {
    "mainnet": bytes.fromhex("f9beb4d9"),
    "testnet": bytes.fromhex("0b110907"),
    "regtest": bytes.fromhex("fabfb5da"),
}

COMPONENTS = {
    "real": [
        "bits.p2p.write_blocks_to_disk",
        "CPython io.BufferedWriter (user-space buffering, tell(), short-write retry, flush on close) stacked on the simulated raw file",
        "os.path.exists / os.makedirs / os.path.join / sorted() as the code calls them (dispatching to the simulated primitives)",
    ],
    "stub": [
        "file system primitives stat / mkdir / listdir / open / raw write / close (in-memory SimFS under a virtual root)",
        "process crash (SimCrash raised inside an I/O call; un-flushed Python buffers are lost) and restart (module reload + fresh seams)",
        "directory order (seeded permutation), disk capacity, I/O errors",
    ],
}

RULE = (
    "one seeded history = 1-6 batches of 0-4 blocks (sizes chosen around the scaled file limit) from an empty / missing / pre-populated directory with seeded restarts; "
    "it is executed once fault-free (oracle after every batch) and then once per enumerated fault: crash-before at EVERY I/O call index, crash-after at every mutating call, "
    "torn write at every raw write (every split point for writes <= 64 bytes, seeded ones beyond), plus seeded EIO / ENOSPC / error-on-close / short-write runs. "
    "evaluations = executions (history x fault); non-trivial = an execution in which an injected fault actually fired; distinct = distinct SHA-256 of the execution's I/O event log"
)
ASSUMPTIONS = [
    "process-crash model: bytes handed to the OS (raw write) survive, bytes in Python buffers are lost; no power-loss model (the code never fsyncs and the property does not ask for it)",
    "MAX_BLOCKFILE_SIZE is scaled down to 64..4096 bytes (read at call time); blocks are at most limit-8 bytes so a record always fits an empty file",
    "stray files in the directory never end in .dat",
    "after a crash that leaves the last file inside a record the history ends (recovery from a torn tail is not in the property)",
    "reference record-stream model in /verif/ref/blockfiles.py",
]

_p2p = None
_code = None


def p2p_module(reload=False):
    """reload=True models a process restart: the module body is executed again in a
    brand-new module object, so no module-level state survives (what
    importlib.reload does, minus re-reading and re-compiling the source)."""
    global _p2p, _code
    if _p2p is None:
        bits = import_bits()
        import logging

        import bits.p2p as m

        logging.disable(logging.CRITICAL)
        _p2p = m
        with open(m.__file__, "rb") as f:
            _code = compile(f.read(), m.__file__, "exec")
    elif reload:
        from sim import fresh as F

        _p2p = F.refresh(["bits.crypto", "bits.utils", "bits.p2p"] if reload == "all" else ["bits.p2p"])[-1]
    return _p2p


# --------------------------------------------------------------------------- plan
def _sizes(rng, L):
    alpha = [L - 8, L - 9, (L - 16) // 2, (L - 16) // 2 + 1, (L - 24) // 3, 1, 0, 2, L // 4, max(0, L - 8 - 1), max(0, L // 2 - 8), max(0, L // 2 - 7)]
    alpha = sorted({a for a in alpha if 0 <= a <= L - 8})
    return alpha


def plan(seed, tier="quick", index=0):
    rng = sub_rng(seed, "plan")
    L = rng.choice([64, 64, 100, 128, 256, 1000, 4096])
    alpha = _sizes(rng, L)
    stratum = rng.choice(["crash-enum", "crash-enum", "crash-enum", "io-errors", "fault-free"])
    nb = rng.choice([1, 1, 2, 2, 3, 4, 6])
    long_run = rng.random() < 0.03
    if long_run:
        # a long-lived store: many batches, many files (numbering past blk00099), fault-free
        stratum = "fault-free"
        nb = rng.choice([24, 40, 70])
        L = rng.choice([64, 100])
        alpha = _sizes(rng, L)
    batches = []
    for b in range(nb):
        k = rng.choice([0, 1, 1, 2, 2, 3, 4])
        sizes = [rng.choice(alpha) if rng.random() < 0.8 else rng.randrange(0, L - 7) for _ in range(k)]
        batches.append({"sizes": sizes, "restart_before": b > 0 and rng.random() < 0.5})
    init = rng.choice(["empty", "missing", "missing-nested", "prepopulated", "prepopulated", "many-files"])
    if long_run and rng.random() < 0.5:
        init = "hundred-files"
    pre = []
    if init == "prepopulated":
        pre = [rng.choice(alpha) for _ in range(rng.randrange(1, 6))]
    elif init == "many-files":
        # 9..13 full files so that numbering crosses blk00009 -> blk00010
        pre = [L - 8] * rng.choice([9, 10, 11, 12]) + [rng.choice(alpha) for _ in range(rng.randrange(0, 2))]
    elif init == "hundred-files":
        pre = [L - 8] * rng.choice([98, 99, 100, 101])
    strays = {}
    if init in ("empty", "prepopulated", "many-files") and rng.random() < 0.3:
        for n in rng.sample(["README.txt", "blk00000.dat.bak", ".lock", "blk.tmp", "zzz", "blk00003.dat.part"], rng.randrange(1, 3)):
            strays[n] = hashlib.sha256(n.encode()).hexdigest()
    sc = {
        "property": PROPERTY,
        "seed": seed,
        "stratum": stratum,
        "network": rng.choice(sorted(MAGICS)),
        "limit": L,
        "buffer_size": rng.choice([16, 64, 512, 8192]),
        "init": init,
        "pre_sizes": pre,
        "strays": strays,
        "batches": batches,
        "benign_short_writes": rng.random() < 0.3,
        # legitimate directory names that mean something to glob / fnmatch / regex / shells
        "dirname": rng.choice(["blocks", "blocks", "blocks", "bitcoin[main]/blocks", "blk*data", "b?ocks", "blocks.d", "my blocks", "[blocks]"]),
        "cap": TIERS.get(tier, TIERS["quick"])["cap"],
    }
    return sc


# --------------------------------------------------------------------------- one execution
def _block(seed, b, i, size):
    if (seed + 7 * b + i) % 9 == 0 and size >= 8:
        # a block whose bytes look exactly like a complete record of this network
        # (magic + the length of what follows), as when a record is copied out of another file
        magic = MAGICS[sorted(MAGICS)[(seed >> 3) % 3]] if (seed >> 5) % 2 else _CUR_MAGIC[0]
        return magic + (size - 8).to_bytes(4, "little") + bytes((j * 37 + i) & 255 for j in range(size - 8))
    if (seed + 7 * b + i) % 9 == 1:
        return bytes(size)
    out = bytearray()
    c = 0
    tag = b"blk<%d,%d>" % (b, i)
    while len(out) < size:
        out += hashlib.sha256(tag + b"%d/%d" % (seed & 0xFFFF, c)).digest()
        c += 1
    return bytes(out[:size])


REAL_LIMIT = 0x8000000  # the library's own MAX_BLOCKFILE_SIZE (128 MiB), the reference point for scaling
_CUR_MAGIC = [b"\xf9\xbe\xb4\xd9"]  # magic of the scenario being executed (for record-like block contents)


class Exec:
    """One execution of a history under one fault plan."""

    def __init__(self, sc, fault_plan, capacity=None, keep_events=False):
        self.sc = sc
        self.log = EventLog(keep=keep_events)
        self.faults = Counters()
        self.viols = []
        self.magic = MAGICS[sc["network"]]
        _CUR_MAGIC[0] = self.magic
        self.root = "/simfs-%x" % (sc["seed"] & 0xFFFFFF)
        nested = sc["init"] == "missing-nested"
        self.datadir = self.root + ("/a/b/" if nested else "/") + sc.get("dirname", "blocks")
        self.fs = SimFS(self.root, self.log, self.faults, sub_rng(sc["seed"], "fs"), buffer_size=sc["buffer_size"], capacity=None)
        self.fault_plan = fault_plan
        self.capacity = capacity
        self.call_batches = []  # call index -> batch
        self.ended = None
        self.packing_not_greedy = 0
        self.stray_touched = 0

    def setup(self):
        fs, sc = self.fs, self.sc
        fs.dirs.add(self.root)
        pre_blocks = [_block(sc["seed"], -1, i, s) for i, s in enumerate(sc["pre_sizes"])]
        self.S = BF.stream(self.magic, pre_blocks)
        self.bounds = BF.boundaries(self.magic, pre_blocks)
        if sc["init"] not in ("missing", "missing-nested"):
            parts = self.datadir[len(self.root) + 1 :].split("/")
            for k in range(1, len(parts) + 1):
                fs.dirs.add(self.root + "/" + "/".join(parts[:k]))
            if pre_blocks:
                for name, data in sorted(BF.pack(self.magic, pre_blocks, sc["limit"]).items()):
                    fs.files[self.datadir + "/" + name] = bytearray(data)
            for name in sorted(sc["strays"]):
                fs.files[self.datadir + "/" + name] = bytearray(bytes.fromhex(sc["strays"][name]))
        fs.calls = 0
        fs.call_log = []
        fs.plan = dict(self.fault_plan)
        if self.capacity is not None:
            fs.capacity = fs.used() + self.capacity

    def observe(self):
        pre = self.datadir + "/"
        return {p[len(pre) :]: bytes(d) for p, d in sorted(self.fs.files.items()) if p.startswith(pre)}

    def run(self):
        sc, fs = self.sc, self.fs
        p2p_module()
        p2p = p2p_module(reload=True)  # every execution starts as a new process
        self.setup()
        fs.mount()
        saved_limit = p2p.MAX_BLOCKFILE_SIZE
        saved_magic = p2p.MAGIC_START_BYTES
        try:
            for b, batch in enumerate(sc["batches"]):
                if batch["restart_before"]:
                    fs.restart()
                    p2p = p2p_module(reload=True)
                p2p.MAX_BLOCKFILE_SIZE = sc["limit"]
                # every other size-like tuning constant of the module is scaled by the same factor
                # (sync intervals, chunk sizes, ... would otherwise never be reached at this scale)
                for _name in sorted(vars(p2p)):
                    _val = getattr(p2p, _name)
                    if _name.isupper() and type(_val) is int and _val >= 1 << 16 and _name not in ("MAX_BLOCKFILE_SIZE", "MAX_SIZE", "MSG_WITNESS_FLAG", "MSG_WITNESS_TX", "MSG_WITNESS_BLOCK"):
                        setattr(p2p, _name, max(1, _val * sc["limit"] // REAL_LIMIT))
                p2p.set_magic_start_bytes(sc["network"])
                blocks = [_block(sc["seed"], b, i, s) for i, s in enumerate(batch["sizes"])]
                S_new = self.S + BF.stream(self.magic, blocks)
                bounds_new = self.bounds | BF.boundaries(self.magic, blocks, start=len(self.S))
                first_call = fs.calls
                outcome, detail = "ok", ""
                try:
                    p2p.write_blocks_to_disk(blocks, self.datadir)
                except SimCrash as e:
                    outcome, detail = "crash", str(e)
                except HarnessError:
                    raise
                except Exception as e:
                    outcome, detail = "error", f"{type(e).__name__}: {e}"
                    e = None
                if any(not r.closed for r in fs.live_raws()):
                    gc.collect()  # a dangling file object caught in a cycle is closed (and flushed) now
                self.call_batches.extend([b] * (fs.calls - first_call))
                self.log.add(fs.calls, "driver", "batch", (b, outcome))
                injected = sum(self.faults.values()) - self.faults.get("short-write", 0)
                obs = self.observe()
                if outcome == "ok":
                    self.check_full(obs, S_new, bounds_new, b)
                    self.S, self.bounds = S_new, bounds_new
                    continue
                if outcome == "error" and not injected:
                    self.viols.append(Violation("write-failed", f"batch={b}", detail, features={"outcome": "error"}))
                    self.ended = "error"
                    break
                concat = self.check_prefix(obs, self.S, S_new, bounds_new, b, outcome, detail)
                if outcome == "crash":
                    fs.restart()
                    p2p = p2p_module(reload=True)
                if concat is None or len(concat) not in bounds_new:
                    self.ended = outcome + "-torn-tail"
                    break
                # the model adopts the observed prefix and the history goes on
                self.S = concat
                self.bounds = {x for x in bounds_new if x <= len(concat)}
        finally:
            fs.unmount()
            p2p = p2p_module()
            p2p.MAX_BLOCKFILE_SIZE = saved_limit
            p2p.MAGIC_START_BYTES = saved_magic
        return self

    # ------------------------------------------------------------ oracles
    def _layout(self, obs, b, what):
        """Common structural checks; returns the concatenation or None."""
        sc = self.sc
        blk, other = BF.read_dir(obs)
        ok = True
        for name in other:
            if name not in sc["strays"] and name.endswith(".dat"):
                # a .dat file that is not blkNNNNN.dat: a record went somewhere a reader will not look
                # (other new files - an index, a lock file - are none of this property's business)
                self.viols.append(Violation("unexpected-file", f"batch={b} name={name}", f"{what}; files={sorted(obs)}"))
                ok = False
        for name in sorted(sc["strays"]):
            if obs.get(name) != bytes.fromhex(sc["strays"][name]):
                # unrelated files are not covered by the property (an implementation may own a
                # lock or index file of that name): a statistic, not a verdict
                self.stray_touched += 1
        nums = [n for n, _, _ in blk]
        if nums and nums != list(range(nums[0], nums[0] + len(nums))):
            self.viols.append(Violation("numbering", f"batch={b}", f"{what}; file numbers {nums}"))
            ok = False
        for n, name, data in blk:
            if len(data) > sc["limit"]:
                self.viols.append(Violation("file-too-large", f"batch={b} file={name}", f"{what}; {len(data)} > {sc['limit']}"))
                ok = False
        return blk, ok

    def check_full(self, obs, S, bounds, b):
        blk, ok = self._layout(obs, b, "after acknowledged batch")
        concat = b"".join(d for _, _, d in blk)
        if concat != S:
            if S.startswith(concat):
                clause = "block-missing"
            elif concat.startswith(S):
                clause = "extra-bytes"
            else:
                clause = "content-mismatch"
            i = next((k for k in range(min(len(concat), len(S))) if concat[k] != S[k]), min(len(concat), len(S)))
            self.viols.append(Violation(clause, f"batch={b}", f"files hold {len(concat)} bytes, model {len(S)}; first difference at {i}; sizes={[len(d) for _, _, d in blk]} limit={self.sc['limit']} batch sizes={self.sc['batches'][b]['sizes']}"))
            return
        pos = 0
        for n, name, data in blk:
            pos += len(data)
            if pos not in bounds:
                self.viols.append(Violation("split-record", f"batch={b} file={name}", f"file ends at stream offset {pos}, inside a record"))
        # statistic only: was a new file started although the record would have fitted?
        pos = 0
        for k, (n, name, data) in enumerate(blk[:-1]):
            pos += len(data)
            nxt = min((x for x in bounds if x > pos), default=None)
            if nxt is not None and len(data) + (nxt - pos) <= self.sc["limit"]:
                self.packing_not_greedy += 1

    def check_prefix(self, obs, S_old, S_new, bounds, b, outcome, detail):
        what = f"after {outcome} ({detail})"
        blk, ok = self._layout(obs, b, what)
        concat = b"".join(d for _, _, d in blk)
        key = f"batch={b} after={outcome}"
        if not concat.startswith(S_old):
            i = next((k for k in range(min(len(concat), len(S_old))) if concat[k] != S_old[k]), min(len(concat), len(S_old)))
            self.viols.append(Violation("earlier-block-damaged", key, f"{what}; bytes of acknowledged batches changed/missing from offset {i} (had {len(S_old)}, now {len(concat)})"))
            return None
        if not S_new.startswith(concat):
            i = next((k for k in range(min(len(concat), len(S_new))) if concat[k] != S_new[k]), min(len(concat), len(S_new)))
            self.viols.append(Violation("not-a-prefix", key, f"{what}; files are not a prefix of the record stream (first difference at {i}, files {len(concat)} bytes, stream {len(S_new)})"))
            return None
        pos = 0
        for n, name, data in blk[:-1]:
            pos += len(data)
            if pos not in bounds:
                self.viols.append(Violation("split-record", key + f" file={name}", f"{what}; a non-last file ends inside a record at {pos}"))
        return concat if ok else None


# --------------------------------------------------------------------------- execute (enumeration)
def _enumerate_faults(sc, dry):
    """All single faults for a history, from the dry run's call log."""
    rng = sub_rng(sc["seed"], "faults")
    out = []
    # write sizes are needed for torn writes: take them from the dry run's file growth
    for idx, name, path in dry.fs.call_log:
        out.append({idx: ("crash-before",)})
        if name in ("mkdir", "open-create", "open-trunc", "write", "close"):
            out.append({idx: ("crash-after",)})
        if name == "write":
            n = dry.write_sizes.get(idx, 0)
            if n > 1:
                if n <= 64:
                    pts = range(1, n)
                else:
                    pts = sorted({1, 4, 7, 8, 9, n - 1, rng.randrange(1, n), rng.randrange(1, n)})
                for j in pts:
                    if 0 < j < n:
                        out.append({idx: ("torn", j)})
    return out


def _io_error_plans(sc, dry, k):
    rng = sub_rng(sc["seed"], "ioerr")
    calls = dry.fs.call_log
    out = []
    by = {}
    for idx, name, path in calls:
        by.setdefault(name, []).append(idx)
    for _ in range(k):
        kind = rng.choice(["eio-write", "eio-write", "eio-open", "eio-close", "eio-mkdir", "short", "enospc", "enospc"])
        if kind == "enospc":
            total = sum(dry.write_sizes.values())
            out.append(({}, rng.randrange(0, total + 1) if total else 0))
            continue
        name = {"eio-write": "write", "eio-open": rng.choice(["open", "open-create"]), "eio-close": "close", "eio-mkdir": "mkdir", "short": "write"}[kind]
        if not by.get(name):
            continue
        if kind == "short":
            plan_ = {}
            for idx in by["write"]:
                if rng.random() < 0.6:
                    plan_[idx] = ("short", rng.randrange(1, 40))
            out.append((plan_, None))
        else:
            out.append(({rng.choice(by[name]): ("eio",)}, None))
    return out


class _DryExec(Exec):
    def setup(self):
        super().setup()
        self.write_sizes = {}
        fs = self.fs
        orig = fs.raw_write

        def rec(raw, b):
            idx = fs.calls
            self.write_sizes[idx] = len(b)
            return orig(raw, b)

        fs.raw_write = rec


def execute(scenario, tape=None, keep_events=False):
    sc = scenario
    res = RunResult()
    res.stratum = sc["stratum"]
    digests = []
    h = hashlib.sha256()
    execs = 0
    all_viols = []

    def account(ex, label):
        nonlocal execs
        execs += 1
        d = ex.log.digest()
        h.update(d.encode())
        res.faults.merge(ex.faults)
        fired = sum(ex.faults.values())
        if fired:
            digests.append(d[:16])
        for v in ex.viols:
            v.detail = f"[{label}] " + v.detail
            v.features = dict(v.features, fault=label.split(" ")[0])
            all_viols.append(v)
        if ex.ended:
            res.probes.hit("history-ended-" + ex.ended)
        if ex.packing_not_greedy:
            res.probes.hit("stat-new-file-although-record-fitted", ex.packing_not_greedy)
        if ex.stray_touched:
            res.probes.hit("stat-unrelated-file-touched", ex.stray_touched)

    only = sc.get("only_fault")
    p2p_module()
    p2p_module(reload="all")  # helper modules are renewed once per history, bits.p2p per execution
    base_plan = {}
    dry = _DryExec(sc, {}, keep_events=keep_events).run()
    if sc["benign_short_writes"]:
        rng = sub_rng(sc["seed"], "benign")
        for idx in sorted(dry.write_sizes):
            if rng.random() < 0.5:
                base_plan[idx] = ("short", rng.randrange(1, 24))
        dry = _DryExec(sc, base_plan, keep_events=keep_events).run()
    account(dry, "fault-free" + (" +short-writes" if base_plan else ""))
    files_n = len([p for p in dry.fs.files if p.endswith(".dat")])
    if files_n > 1:
        res.probes.hit("rollover-to-new-file")
    if files_n > 10:
        res.probes.hit("more-than-10-files")
    if any(b["restart_before"] for b in sc["batches"]):
        res.probes.hit("restart-between-batches")
    res.stats["io_calls"] = dry.fs.calls
    res.stats["crash_points_total"] = 0
    res.stats["crash_points_done"] = 0
    if not dry.viols and sc["stratum"] != "fault-free":
        if sc["stratum"] == "crash-enum":
            plans = [(p, None) for p in _enumerate_faults(sc, dry)]
            res.stats["crash_points_total"] = len(plans)
            cap = sc.get("cap", 120)
            if len(plans) > cap:
                rng = sub_rng(sc["seed"], "cap")
                plans = [plans[i] for i in sorted(rng.sample(range(len(plans)), cap))]
                res.probes.hit("crash-point-enumeration-capped")
            else:
                res.probes.hit("crash-point-enumeration-complete")
            res.stats["crash_points_done"] = len(plans)
        else:
            plans = _io_error_plans(sc, dry, 12)
        for p, capacity in plans:
            if only is not None and [only] != [_plan_key(p, capacity)]:
                continue
            fp = dict(base_plan)
            fp.update(p)
            ex = Exec(sc, fp, capacity=capacity, keep_events=keep_events).run()
            account(ex, _plan_key(p, capacity))
    seen = set()
    for v in all_viols:
        kk = (v.clause, v.key)
        if kk not in seen:
            seen.add(kk)
            res.violations.append(v.to_json())
    res.stats["executions"] = execs
    res.stats["digests"] = digests
    res.nontrivial = bool(digests)
    res.digest = h.hexdigest()
    res.steps = execs
    res.features = {"stratum": sc["stratum"]}
    res.stats["events"] = dry.log.events if keep_events else None
    return res


def _plan_key(p, capacity):
    if capacity is not None:
        return f"enospc cap=+{capacity}"
    return " ".join(f"{v[0]}@{k}" + (f":{v[1]}" if len(v) > 1 else "") for k, v in sorted(p.items())) or "none"


def merge_stats(agg, st, final=False):
    for k in ("executions", "io_calls", "crash_points_total", "crash_points_done"):
        agg[k] = agg.get(k, 0) + st.get(k, 0)


def finalise_stats(st):
    return {
        "histories": None,
        "executions": st.get("executions", 0),
        "io_calls_in_fault_free_runs": st.get("io_calls", 0),
        "crash_points_enumerated": st.get("crash_points_done", 0),
        "crash_points_in_sampled_histories": st.get("crash_points_total", 0),
        "distinct_interleavings": None,
        "distinct_interleavings_measure": "not applicable (single-threaded); reach is measured in crash points enumerated per history",
    }


EVALS_FROM_STATS = "executions"


def selfcheck():
    assert BF.selftest()


def shrink_candidates(scenario, tape):
    import copy

    sc0 = scenario
    for b in range(len(sc0["batches"]) - 1, -1, -1):
        if len(sc0["batches"]) > 1:
            sc = copy.deepcopy(sc0)
            sc["batches"].pop(b)
            if sc["batches"]:
                sc["batches"][0]["restart_before"] = False
            yield sc, tape
    for b, batch in enumerate(sc0["batches"]):
        for i in range(len(batch["sizes"]) - 1, -1, -1):
            sc = copy.deepcopy(sc0)
            sc["batches"][b]["sizes"].pop(i)
            yield sc, tape
        if batch["restart_before"]:
            sc = copy.deepcopy(sc0)
            sc["batches"][b]["restart_before"] = False
            yield sc, tape
    if sc0["pre_sizes"]:
        sc = copy.deepcopy(sc0)
        sc["pre_sizes"] = sc0["pre_sizes"][: len(sc0["pre_sizes"]) // 2]
        if not sc["pre_sizes"]:
            sc["init"] = "empty"
        yield sc, tape
    if sc0["strays"]:
        sc = copy.deepcopy(sc0)
        sc["strays"] = {}
        yield sc, tape
    if sc0["benign_short_writes"]:
        sc = copy.deepcopy(sc0)
        sc["benign_short_writes"] = False
        yield sc, tape
    if sc0.get("dirname", "blocks") != "blocks":
        sc = copy.deepcopy(sc0)
        sc["dirname"] = "blocks"
        yield sc, tape
    if sc0["buffer_size"] != 8192:
        sc = copy.deepcopy(sc0)
        sc["buffer_size"] = 8192
        yield sc, tape


def sample(scenario):
    return {k: scenario.get(k) for k in ("stratum", "network", "limit", "buffer_size", "init", "dirname", "pre_sizes", "strays", "batches", "benign_short_writes")}
