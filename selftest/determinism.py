"""
Determinism self-test: one seed must be one exactly repeatable execution.

For every engine / property: N seeds are each executed twice in this process, once
more (re-using the recorded schedule tape) in this process, and once in fresh
interpreters started with other PYTHONHASHSEED values, spread over many worker
processes.  All event-log digests must agree.  Exit 0 = deterministic, 2 = not.
"""
import concurrent.futures as cf
import json
import multiprocessing
import os
import subprocess
import sys

from sim.core import derive_seed, import_bits
from sim.runner import ROOT, load_prop

PROPS = ["C18", "C17", "C19", "C01", "C03", "C16"]
N = {"C18": 600, "C17": 1500, "C19": 600, "C01": 48, "C03": 64, "C16": 48}


def digests(prop, idxs, tier="quick", base=0, with_tape=False):
    mod = load_prop(prop)
    out = {}
    for i in idxs:
        seed = derive_seed(base, prop, tier, i)
        sc = mod.plan(seed, tier, i)
        r = mod.execute(sc)
        d = r.digest
        if with_tape and r.tape is not None:
            r2 = mod.execute(sc, tape=r.tape)
            if r2.digest != d:
                d = d + "!tape:" + r2.digest
        out[str(i)] = d
    return out


def _child(argv):
    prop, lo, hi = argv[0], int(argv[1]), int(argv[2])
    sys.path.insert(0, ROOT)
    import_bits()
    print(json.dumps(digests(prop, range(lo, hi))))


def _chunk(prop, lo, hi):
    import_bits()
    return digests(prop, range(lo, hi), with_tape=True)


def main(a):
    import_bits()
    props = [a.only] if a.only else [p for p in PROPS if os.path.exists(os.path.join(ROOT, "props", p.lower() + ".py"))]
    bad = 0
    for prop in props:
        n = a.runs or N[prop]
        # A: in-process, 16 forked workers
        ctx = multiprocessing.get_context("fork")
        chunks = [(i, min(n, i + max(1, n // 32))) for i in range(0, n, max(1, n // 32))]
        A = {}
        with cf.ProcessPoolExecutor(16, mp_context=ctx) as ex:
            for d in ex.map(_chunk, [prop] * len(chunks), [c[0] for c in chunks], [c[1] for c in chunks]):
                A.update(d)
        # B: same, single worker process, again
        B = {}
        with cf.ProcessPoolExecutor(1, mp_context=ctx) as ex:
            for d in ex.map(_chunk, [prop] * 2, [0, n // 2], [n // 2, n]):
                B.update(d)
        # C, D: fresh interpreters with other hash seeds
        outs = []
        procs = []
        for hs in ("1", "4242"):
            for lo, hi in chunks[::1]:
                env = dict(os.environ, PYTHONHASHSEED=hs, PYTHONDONTWRITEBYTECODE="1")
                procs.append(
                    (hs, subprocess.Popen([sys.executable, "-c", "import sys; sys.path.insert(0, %r); from selftest.determinism import _child; _child(sys.argv[1:])" % ROOT, prop, str(lo), str(hi)], stdout=subprocess.PIPE, env=env, text=True))
                )
                if len(procs) >= 16:
                    for h, p in procs:
                        o, _ = p.communicate(timeout=1800)
                        outs.append((h, json.loads(o)))
                    procs = []
        for h, p in procs:
            o, _ = p.communicate(timeout=1800)
            outs.append((h, json.loads(o)))
        mism = 0
        for k in sorted(A, key=int):
            if "!tape" in A[k]:
                mism += 1
                print(f"NONDETERMINISM {prop} idx={k}: tape replay differs {A[k]}")
            if B.get(k) != A[k]:
                mism += 1
                print(f"NONDETERMINISM {prop} idx={k}: 16 workers vs 1 worker {A[k][:12]} {str(B.get(k))[:12]}")
        seen = 0
        for h, d in outs:
            for k in sorted(d, key=int):
                seen += 1
                if d[k] != A[k].split("!")[0]:
                    mism += 1
                    print(f"NONDETERMINISM {prop} idx={k}: PYTHONHASHSEED={h} fresh interpreter {d[k][:12]} vs {A[k][:12]}")
        print(f"# determinism {prop}: seeds={n} in-process-twice+tape ok, 1-vs-16 workers, fresh interpreters x2 hash seeds ({seen} runs): mismatches={mism}")
        bad += mism
    if bad:
        print(f"HARNESS-ERROR determinism self-test failed: {bad} mismatches")
        return 2
    return 0
