"""Pins the reference models in /verif/ref to public fixed points (setup_cmd)."""
import importlib
import os

from sim.runner import ROOT


def main(a):
    n = 0
    for f in sorted(os.listdir(os.path.join(ROOT, "ref"))):
        if f.endswith(".py") and f != "__init__.py":
            m = importlib.import_module("ref." + f[:-3])
            if hasattr(m, "selftest"):
                assert m.selftest(), f
                n += 1
    print(f"# reference self-tests passed: {n} modules")
    return 0
