"""
Sensitivity self-test: break each property on purpose in a scratch copy of the
sources and require the property's own quick check to (a) exit 1 with a VIOLATION
line and (b) reproduce the violation from the replay file in a fresh process.

The scratch copy lives outside /repo and /verif (under /dev/shm when present) and is
deleted as soon as the mutation has been judged.  Evidence and replay files of these
runs go to the scratch directory, never to /verif/evidence.

Also applies every patch under /verif/seeded/*/patch.diff (changes written by
independent sub-agents) when run with --only seeded or without --only.
"""
import concurrent.futures as cf
import json
import os
import re
import shutil
import subprocess
import sys
import tempfile

from sim.runner import ROOT

sys.path.insert(0, os.path.join(ROOT, "tools"))
from repl import repl  # noqa: E402

SRC = os.environ.get("BITS_SRC", "/repo/src")

# (id, property, file, old, new, runs or None)
M = []


def mut(mid, prop, file, old, new, runs=None, also=()):
    M.append({"id": mid, "prop": prop, "edits": [(file, old, new)] + list(also), "runs": runs})


# ---------------------------------------------------------------- C18
mut(
    "c18-revert-queue-fix",
    "C18",
    "bits/p2p.py",
    """            if command in self._registered_commands_to_handle:
                self.handle_command(peer_no, command, payload)
            else:
                self._msg_queue.append((peer_no, command, payload))
""",
    """            self._msg_queue.append((peer_no, command, payload))
            if command in self._registered_commands_to_handle:
                self._msg_queue.pop()
                self.handle_command(peer_no, command, payload)
""",
)
mut(
    "c18-pong-to-peer-0",
    "C18",
    "bits/p2p.py",
    """        log.info(f"handle_ping_command: sending pong to peer {peer_no}...")
        self._peer_sockets[peer_no].sendall(msg)
""",
    """        log.info(f"handle_ping_command: sending pong to peer {peer_no}...")
        self._peer_sockets[0].sendall(msg)
""",
    runs=1500,
)
mut("c18-appendleft", "C18", "bits/p2p.py", "                self._msg_queue.append((peer_no, command, payload))\n", "                self._msg_queue.appendleft((peer_no, command, payload))\n", runs=1500)
mut(
    "c18-pong-constant-nonce",
    "C18",
    "bits/p2p.py",
    """        msg = msg_ser(MAGIC_START_BYTES, b"pong", ping_payload(payload["nonce"]))
""",
    """        msg = msg_ser(MAGIC_START_BYTES, b"pong", ping_payload(payload["nonce"] & 0xFFFFFFFF))
""",
    runs=1500,
)
mut(
    "c18-handler-twice",
    "C18",
    "bits/p2p.py",
    """            if command in self._registered_commands_to_handle:
                self.handle_command(peer_no, command, payload)
            else:
""",
    """            if command in self._registered_commands_to_handle:
                self.handle_command(peer_no, command, payload)
                if command == b"ping" and len(self._msg_queue) > 2:
                    self.handle_command(peer_no, command, payload)
            else:
""",
)
mut(
    "c18-shared-last-message",
    "C18",
    "bits/p2p.py",
    """            payload = parse_payload(command, payload)
            log.debug(f"payload (parsed): {payload}")
            if command in self._registered_commands_to_handle:
                self.handle_command(peer_no, command, payload)
            else:
                self._msg_queue.append((peer_no, command, payload))
""",
    """            self._last = (peer_no, command, parse_payload(command, payload))
            log.debug(f"payload (parsed): {self._last[2]}")
            if command in self._registered_commands_to_handle:
                self.handle_command(*self._last)
            else:
                self._msg_queue.append(self._last)
""",
)
# ---------------------------------------------------------------- C17
mut(
    "c17-revert-eof-fix-header",
    "C17",
    "bits/p2p.py",
    """        chunk = sock.recv(MSG_HEADER_LEN - len(msg))
        if not chunk:
            raise ConnectionError("connection closed by peer while reading header")
        msg += chunk
""",
    """        chunk = sock.recv(MSG_HEADER_LEN - len(msg))
        msg += chunk
""",
    runs=4000,
)
mut(
    "c17-eof-payload-only-when-empty",
    "C17",
    "bits/p2p.py",
    """            if not chunk:
                raise ConnectionError("connection closed by peer while reading payload")
""",
    """            if not chunk and not payload:
                raise ConnectionError("connection closed by peer while reading payload")
""",
    runs=8000,
)
mut(
    "c17-no-checksum-check",
    "C17",
    "bits/p2p.py",
    "    if checksum != bits.crypto.hash256(payload)[:4]:\n",
    "    if payload_size > 1000 and checksum != bits.crypto.hash256(payload)[:4]:\n",
    runs=8000,
)
mut("c17-no-magic-check", "C17", "bits/p2p.py", "    if start_bytes != MAGIC_START_BYTES:\n", "    if start_bytes[:3] != MAGIC_START_BYTES[:3]:\n", runs=8000)
mut(
    "c17-header-overread",
    "C17",
    "bits/p2p.py",
    "        chunk = sock.recv(MSG_HEADER_LEN - len(msg))\n",
    "        chunk = sock.recv(MSG_HEADER_LEN)\n",
    runs=4000,
)
mut("c17-length-3-bytes", "C17", "bits/p2p.py", '    payload_size = int.from_bytes(msg[16:20], "little")\n', '    payload_size = int.from_bytes(msg[16:19], "little")\n', runs=8000)
mut(
    "c17-revert-relay-fix",
    "C17",
    "bits/p2p.py",
    """        if versionpayload_[81 + user_agent_len + 4] == 1:
            parsed_payload["relay"] = True
""",
    """        if versionpayload_[81 + user_agent_len + 4] == b"\\x01":
            parsed_payload["relay"] = True
""",
    runs=4000,
)
mut(
    "c17-revert-getheaders-fix",
    "C17",
    "bits/p2p.py",
    "            for i in range(len(block_header_hashes) // 32)\n",
    "            for i in range(1, 1 + len(block_header_hashes) // 32)\n",
    runs=4000,
)
mut(
    "c17-inv-count-253",
    "C17",
    "bits/p2p.py",
    """    if count == 253:
        count = int.from_bytes(payload[1:3], "little")
        start_index = 3
""",
    """    if count == 253:
        count = int.from_bytes(payload[1:3], "big")
        start_index = 3
""",
    runs=8000,
)
# ---------------------------------------------------------------- C19
mut(
    "c19-revert-rollover-write",
    "C19",
    "bits/p2p.py",
    """            dat_file = open(filepath, "ab")
            dat_file.write(blk_data)
""",
    """            dat_file = open(filepath, "ab")
""",
    runs=400,
)
mut("c19-truncate-on-open", "C19", "bits/p2p.py", '    dat_file = open(filepath, "ab")\n    for blk in blocks:\n', '    dat_file = open(filepath, "wb" if len(dat_files) > 2 else "ab")\n    for blk in blocks:\n', runs=800)
mut(
    "c19-no-sorted",
    "C19",
    "bits/p2p.py",
    '    dat_files = sorted([f for f in os.listdir(datadir) if f.endswith(".dat")])\n',
    '    dat_files = [f for f in os.listdir(datadir) if f.endswith(".dat")]\n',
    runs=400,
)
mut("c19-length-big-endian", "C19", "bits/p2p.py", '        blk_data = MAGIC_START_BYTES + len(blk).to_bytes(4, "little") + blk\n', '        blk_data = MAGIC_START_BYTES + len(blk).to_bytes(4, "big") + blk\n', runs=200)
mut("c19-zfill-4", "C19", "bits/p2p.py", '            filename = f"blk{str(new_blk_no).zfill(5)}.dat"\n', '            filename = f"blk{str(new_blk_no).zfill(4)}.dat"\n', runs=400)
mut(
    "c19-size-check-ignores-header",
    "C19",
    "bits/p2p.py",
    "        if len(blk_data) + dat_file.tell() <= MAX_BLOCKFILE_SIZE:\n",
    "        if len(blk) + dat_file.tell() <= MAX_BLOCKFILE_SIZE:\n",
    runs=400,
)
mut(
    "c19-int-sort-breaks-at-10",
    "C19",
    "bits/p2p.py",
    "        filepath = os.path.join(datadir, dat_files[-1])\n",
    "        filepath = os.path.join(datadir, max(dat_files, key=lambda f: f.lstrip('blk0')))\n",
    runs=800,
)
# ---------------------------------------------------------------- C01
mut("c01-revert-der-fix", "C01", "bits/utils.py", '        s_bytes = b"\\x00" + s_bytes\n', '        s_bytes += b"\\x00" + s_bytes\n', runs=96)
mut(
    "c01-no-zero-retry",
    "C01",
    "bits/ecmath.py",
    """        k = secrets.randbelow(N)
        while not k:
            k = secrets.randbelow(N)
""",
    """        k = secrets.randbelow(N) or 1
""",
    runs=160,
)
mut(
    "c01-no-low-s",
    "C01",
    "bits/ecmath.py",
    "            if s > SECP256K1_N // 2 or s < 1:\n",
    "            if s > SECP256K1_N - 2**200 or s < 1:\n",
    runs=160,
)
mut("c01-revert-verify-mod-n", "C01", "bits/ecmath.py", "    u1 = div_mod_p(digest % N, s, p=N)\n", "    u1 = div_mod_p(digest, s, p=N)\n", runs=96)
mut(
    "c01-preimage-flag-byte",
    "C01",
    "bits/utils.py",
    "        signature_der += sh_flag.to_bytes(1, \"little\")\n",
    "        signature_der += (sh_flag & 0x7F).to_bytes(1, \"little\")\n",
    runs=160,
)
mut(
    "c01-nonce-from-message",
    "C01",
    "bits/ecmath.py",
    """        k = secrets.randbelow(N)
        while not k:
            k = secrets.randbelow(N)
""",
    """        k = secrets.randbelow(N)
        while not k:
            k = secrets.randbelow(N)
        k = (digest * 0x9E3779B97F4A7C15 + 1) % N or k
""",
    runs=160,
)
mut("c01-der-short-r", "C01", "bits/utils.py", "    if r_bytes[0] >= 0x80:\n", "    if r_bytes[0] > 0x80:\n", runs=320)
# ---------------------------------------------------------------- C03
mut(
    "c03-revert-keygen-fix",
    "C03",
    "bits/keys.py",
    '    return (secrets.randbelow(bits.ecmath.SECP256K1_N - 1) + 1).to_bytes(32, "big")\n',
    '    return secrets.randbelow(bits.ecmath.SECP256K1_N).to_bytes(32, "big")\n',
    runs=64,
)
mut(
    "c03-truncated-entropy",
    "C03",
    "bits/keys.py",
    '    return (secrets.randbelow(bits.ecmath.SECP256K1_N - 1) + 1).to_bytes(32, "big")\n',
    '    return (secrets.randbelow(bits.ecmath.SECP256K1_N - 1) % 2**192 + 1).to_bytes(32, "big")\n',
    runs=128,
)
mut("c03-parity-prefix", "C03", "bits/utils.py", '        prefix = b"\\x02" if y % 2 == 0 else b"\\x03"\n', '        prefix = b"\\x02" if y % 2 == 0 or x < 2**250 else b"\\x03"\n', runs=320)
mut(
    "c03-off-by-one-range",
    "C03",
    "bits/keys.py",
    '    return (secrets.randbelow(bits.ecmath.SECP256K1_N - 1) + 1).to_bytes(32, "big")\n',
    '    return (secrets.randbelow(bits.ecmath.SECP256K1_N) + 1).to_bytes(32, "big")\n',
    runs=128,
)
# ---------------------------------------------------------------- C16
mut("c16-revert-rounding", "C16", "bits/tx.py", '        amount = round(utxo["amount"] * 1e8)\n', '        amount = int(utxo["amount"] * 1e8)\n', runs=320)
mut(
    "c16-change-to-recipient",
    "C16",
    "bits/tx.py",
    "        txouts.append(txout(int(total_amount - amount_to_send), change_scriptpubkey))\n",
    "        txouts.append(txout(int(total_amount - amount_to_send), change_scriptpubkey if change_addr else recipient_scriptpubkey))\n",
    runs=320,
)
mut("c16-fee-from-change", "C16", "bits/tx.py", "    if int(total_amount - amount_to_send) >= 1000:  # TODO: > dust limit\n", "    if int(total_amount - amount_to_send) >= 10000:  # TODO: > dust limit\n", runs=640)
mut("c16-revert-segwit-index", "C16", "bits/tx.py", "                    txin_amounts[txin_index],\n", "                    txin_amounts[0],\n", runs=320)
mut(
    "c16-revert-version-locktime",
    "C16",
    "bits/tx.py",
    """                    scriptcode,
                    txouts,
                    version=version,
                    locktime=locktime,
                    sighash_flag=sighash_flag,
""",
    """                    scriptcode,
                    txouts,
                    version=version,
                    sighash_flag=sighash_flag,
""",
    runs=320,
)
mut(
    "c16-single-hashoutputs",
    "C16",
    "bits/bips/bip143.py",
    "    elif sighash_flag & 0x7F == 0x03 and txin_index < len(txouts):\n",
    "    elif sighash_flag & 0x7F == 0x03 and txin_index <= len(txouts):\n",
    runs=960,
)
mut(
    "c16-p2pkh-compression",
    "C16",
    "bits/tx.py",
    "            compressed = True if datums[0] else False\n",
    "            compressed = True\n",
    runs=320,
)
mut(
    "c16-selection-stops-early",
    "C16",
    "bits/tx.py",
    "        if total_amount >= amount_to_send:\n            break\n",
    "        if total_amount >= amount_to_send - miner_fee:\n            break\n",
    runs=640,
)


mut(
    "c16-legacy-other-scripts-not-blanked",
    "C16",
    "bits/tx.py",
    """            inputs.append(txin(txin_[:36], b"", sequence=sequence))
""",
    """            inputs.append(txin(txin_[:36], txin_[37 : 37 + txin_[36]] if txin_[36] < 253 else b"", sequence=sequence))
""",
    runs=640,
)
mut(
    "c16-legacy-single-keeps-all-outputs",
    "C16",
    "bits/tx.py",
    """        outputs = [txout(2**64 - 1, b"")] * txin_index + [txouts[txin_index]]
""",
    """        outputs = txouts
""",
    runs=960,
)
mut(
    "c16-legacy-none-keeps-sequences",
    "C16",
    "bits/tx.py",
    """            sequence = b"\\x00" * 4 if sighash_type in [0x02, 0x03] else txin_[-4:]
""",
    """            sequence = b"\\x00" * 4 if sighash_type == 0x03 else txin_[-4:]
""",
    runs=960,
)
mut(
    "c16-revert-version-char-check",
    "C16",
    "bits/utils.py",
    '    assert data[0:1] in bip173.bech32_int_map, "invalid witness version character"\n',
    "",
    runs=1600,
)


# ---------------------------------------------------------------- benign refactors
# Correct-but-different implementations: the checks must stay silent (exit 0, no
# VIOLATION, no HARNESS-ERROR).  This is the false-alarm side of the self-test.
B = []


def benign(mid, prop, file, old, new, runs=None):
    B.append({"id": "benign/" + mid, "prop": prop, "edits": [(file, old, new)], "runs": runs, "benign": True})


benign(
    "c19-pathlib-fsync",
    "C19",
    "bits/p2p.py",
    """    if not os.path.exists(datadir):
        os.makedirs(datadir)

    dat_files = sorted([f for f in os.listdir(datadir) if f.endswith(".dat")])
    if not dat_files:
        filepath = os.path.join(datadir, "blk00000.dat")
    else:
        filepath = os.path.join(datadir, dat_files[-1])

    dat_file = open(filepath, "ab")
    for blk in blocks:
        blk_data = MAGIC_START_BYTES + len(blk).to_bytes(4, "little") + blk
        if len(blk_data) + dat_file.tell() <= MAX_BLOCKFILE_SIZE:
            dat_file.write(blk_data)
        else:
            dat_file.close()
            new_blk_no = (
                int(os.path.split(filepath)[-1].split(".dat")[0].split("blk")[-1]) + 1
            )
            filename = f"blk{str(new_blk_no).zfill(5)}.dat"
            filepath = os.path.join(datadir, filename)
            dat_file = open(filepath, "ab")
            dat_file.write(blk_data)
    dat_file.close()
""",
    """    import pathlib
    import re

    d = pathlib.Path(datadir)
    d.mkdir(parents=True, exist_ok=True)
    numbers = sorted(int(m.group(1)) for m in (re.fullmatch(r"blk(\\d{5})\\.dat", p.name) for p in d.iterdir()) if m)
    number = numbers[-1] if numbers else 0
    path = d / ("blk%05d.dat" % number)
    size = path.stat().st_size if path.exists() else 0
    for blk in blocks:
        record = MAGIC_START_BYTES + len(blk).to_bytes(4, "little") + blk
        if size + len(record) > MAX_BLOCKFILE_SIZE:
            number += 1
            path = d / ("blk%05d.dat" % number)
            size = 0
        with open(path, "ab") as f:
            f.write(record)
            f.flush()
            os.fsync(f.fileno())
        size += len(record)
    if not blocks and not path.exists():
        path.touch() if False else open(path, "ab").close()
""".replace("\\\\", "\\"),
    runs=1500,
)
benign(
    "c19-os-level-io",
    "C19",
    "bits/p2p.py",
    """    dat_file = open(filepath, "ab")
    for blk in blocks:
        blk_data = MAGIC_START_BYTES + len(blk).to_bytes(4, "little") + blk
        if len(blk_data) + dat_file.tell() <= MAX_BLOCKFILE_SIZE:
            dat_file.write(blk_data)
        else:
            dat_file.close()
            new_blk_no = (
                int(os.path.split(filepath)[-1].split(".dat")[0].split("blk")[-1]) + 1
            )
            filename = f"blk{str(new_blk_no).zfill(5)}.dat"
            filepath = os.path.join(datadir, filename)
            dat_file = open(filepath, "ab")
            dat_file.write(blk_data)
    dat_file.close()
""",
    """    def _write_all(fd, data):
        while data:
            n = os.write(fd, data)
            data = data[n:]

    fd = os.open(filepath, os.O_WRONLY | os.O_CREAT | os.O_APPEND)
    size = os.fstat(fd).st_size
    for blk in blocks:
        blk_data = MAGIC_START_BYTES + len(blk).to_bytes(4, "little") + blk
        if len(blk_data) + size > MAX_BLOCKFILE_SIZE:
            os.fsync(fd)
            os.close(fd)
            new_blk_no = int(os.path.basename(filepath)[3:8]) + 1
            filepath = os.path.join(datadir, "blk%05d.dat" % new_blk_no)
            fd = os.open(filepath, os.O_WRONLY | os.O_CREAT | os.O_APPEND)
            size = 0
        _write_all(fd, blk_data)
        size += len(blk_data)
    os.close(fd)
""",
    runs=1500,
)
benign(
    "c18-lock-and-queue",
    "C18",
    "bits/p2p.py",
    """            if command in self._registered_commands_to_handle:
                self.handle_command(peer_no, command, payload)
            else:
                self._msg_queue.append((peer_no, command, payload))
""",
    """            if not hasattr(self, "_qlock"):
                import threading

                self.__dict__.setdefault("_qlock", threading.Lock())
            handled = command in self._registered_commands_to_handle
            if handled:
                self.handle_command(peer_no, command, payload)
            else:
                with self._qlock:
                    self._msg_queue.append((peer_no, command, payload))
""",
    runs=4000,
)
benign(
    "c18-module-lock",
    "C18",
    "bits/p2p.py",
    """            if command in self._registered_commands_to_handle:
                self.handle_command(peer_no, command, payload)
            else:
                self._msg_queue.append((peer_no, command, payload))
""",
    """            with _QUEUE_LOCK:
                handled = command in self._registered_commands_to_handle
                if not handled:
                    self._msg_queue.append((peer_no, command, payload))
            if handled:
                with _SEND_LOCK:
                    self.handle_command(peer_no, command, payload)
""",
    runs=4000,
)
B[-1]["edits"].append(("bits/p2p.py", "from threading import Event\n", "from threading import Event, Lock, RLock\n"))
B[-1]["edits"].append(("bits/p2p.py", "log = logging.getLogger(__name__)\nlog.setLevel(logging.DEBUG)\n", "log = logging.getLogger(__name__)\nlog.setLevel(logging.DEBUG)\n_QUEUE_LOCK = Lock()\n_SEND_LOCK = RLock()\n"))
benign(
    "c17-recv-into-buffered",
    "C17",
    "bits/p2p.py",
    """    msg = b""
    while len(msg) != MSG_HEADER_LEN:
        chunk = sock.recv(MSG_HEADER_LEN - len(msg))
        if not chunk:
            raise ConnectionError("connection closed by peer while reading header")
        msg += chunk
""",
    """    def _read_exact(n, what):
        buf = bytearray(n)
        view = memoryview(buf)
        got = 0
        while got < n:
            k = sock.recv_into(view[got:], n - got)
            if not k:
                raise ConnectionError(f"connection closed by peer while reading {what}")
            got += k
        return bytes(buf)

    msg = _read_exact(MSG_HEADER_LEN, "header")
""",
    runs=20000,
)
benign(
    "c01-rfc6979-style",
    "C01",
    "bits/ecmath.py",
    """        k = secrets.randbelow(N)
        while not k:
            k = secrets.randbelow(N)
""",
    """        import hashlib as _h
        import hmac as _hm

        _ctr = 0 if not r and not s and "_ctr" not in locals() else _ctr + 1
        k = 0
        while not k:
            k = int.from_bytes(_hm.new(key.to_bytes(32, "big"), (digest % N).to_bytes(32, "big") + _ctr.to_bytes(4, "big"), _h.sha256).digest(), "big") % N
            _ctr += 1
""",
    runs=120,
)
benign(
    "c01-hedged-token-bytes",
    "C01",
    "bits/ecmath.py",
    """        k = secrets.randbelow(N)
        while not k:
            k = secrets.randbelow(N)
""",
    """        import hashlib as _h

        k = 0
        while not k:
            aux = secrets.token_bytes(32)
            k = int.from_bytes(_h.sha256(aux + key.to_bytes(32, "big") + (digest % N).to_bytes(32, "big")).digest(), "big") % N
""",
    runs=120,
)
benign(
    "c01-buffered-pool-fork-safe",
    "C01",
    "bits/ecmath.py",
    """        k = secrets.randbelow(N)
        while not k:
            k = secrets.randbelow(N)
""",
    """        import threading as _th

        _pool = sign.__dict__.setdefault("_pool", {"buf": b"", "lock": _th.Lock()})
        if "hooked" not in _pool:
            import os as _os

            _pool["hooked"] = True
            _os.register_at_fork(after_in_child=lambda: _pool.update(buf=b""))
        k = 0
        while not 0 < k < N:
            with _pool["lock"]:
                if len(_pool["buf"]) < 32:
                    _pool["buf"] += secrets.token_bytes(1024)
                k = int.from_bytes(_pool["buf"][:32], "big")
                _pool["buf"] = _pool["buf"][32:]
""",
    runs=400,
)
benign(
    "c03-rejection-sampling",
    "C03",
    "bits/keys.py",
    '    return (secrets.randbelow(bits.ecmath.SECP256K1_N - 1) + 1).to_bytes(32, "big")\n',
    """    while True:
        candidate = secrets.token_bytes(32)
        if 0 < int.from_bytes(candidate, "big") < bits.ecmath.SECP256K1_N:
            return candidate
""",
    runs=160,
)
B.append({"id": "benign/c16-buffered-pool-signing", "prop": "C16", "edits": [e for b in B if b["id"] == "benign/c01-buffered-pool-fork-safe" for e in b["edits"]], "runs": 800, "benign": True})
assert len(B[-1]["edits"]) == 1
B.append(
    {
        "id": "benign/c19-fdopen-0600",
        "prop": "C19",
        "edits": [
            ("bits/p2p.py", '    dat_file = open(filepath, "ab")\n    for blk in blocks:\n', '    dat_file = os.fdopen(os.open(filepath, os.O_WRONLY | os.O_CREAT | os.O_APPEND, 0o600), "ab")\n    for blk in blocks:\n'),
            ("bits/p2p.py", '            dat_file = open(filepath, "ab")\n            dat_file.write(blk_data)\n', '            dat_file = os.fdopen(os.open(filepath, os.O_WRONLY | os.O_CREAT | os.O_APPEND, 0o600), "ab")\n            dat_file.write(blk_data)\n'),
        ],
        "runs": 6000,
        "benign": True,
    }
)
benign(
    "c03-buffered-pool",
    "C03",
    "bits/keys.py",
    '    return (secrets.randbelow(bits.ecmath.SECP256K1_N - 1) + 1).to_bytes(32, "big")\n',
    """    import threading as _th

    _pool = key.__dict__.setdefault("_pool", {"buf": b"", "lock": _th.Lock()})
    while True:
        with _pool["lock"]:
            if len(_pool["buf"]) < 32:
                _pool["buf"] += secrets.token_bytes(256)
            candidate = _pool["buf"][:32]
            _pool["buf"] = _pool["buf"][32:]
        if 0 < int.from_bytes(candidate, "big") < bits.ecmath.SECP256K1_N:
            return candidate
""",
    runs=240,
)
benign(
    "c16-decimal-amounts",
    "C16",
    "bits/tx.py",
    '        amount = round(utxo["amount"] * 1e8)\n',
    '        amount = int(__import__("decimal").Decimal(repr(utxo["amount"])).scaleb(8).to_integral_value())\n',
    runs=480,
)


benign(
    "c17-read-ahead-per-socket",
    "C17",
    "bits/p2p.py",
    """    msg = b""
    while len(msg) != MSG_HEADER_LEN:
        chunk = sock.recv(MSG_HEADER_LEN - len(msg))
        if not chunk:
            raise ConnectionError("connection closed by peer while reading header")
        msg += chunk
""",
    """    buf = _READ_AHEAD.setdefault(sock, bytearray())  # surplus bytes live and die with their socket object

    def _need(n, what):
        while len(buf) < n:
            chunk = sock.recv(4096)
            if not chunk:
                raise ConnectionError(f"connection closed by peer while reading {what}")
            buf.extend(chunk)

    _need(MSG_HEADER_LEN, "header")
    _size = int.from_bytes(buf[16:20], "little")
    _need(MSG_HEADER_LEN + _size, "payload")
    msg = bytes(buf[: MSG_HEADER_LEN + _size])
    del buf[: MSG_HEADER_LEN + _size]
""",
    runs=30000,
)
B[-1]["edits"].append(
    (
        "bits/p2p.py",
        "log = logging.getLogger(__name__)\nlog.setLevel(logging.DEBUG)\n",
        "log = logging.getLogger(__name__)\nlog.setLevel(logging.DEBUG)\nimport weakref\n\n_READ_AHEAD = weakref.WeakKeyDictionary()\n",
    )
)
benign(
    "c18-dispatcher-thread",
    "C18",
    "bits/p2p.py",
    """            if command in self._registered_commands_to_handle:
                self.handle_command(peer_no, command, payload)
            else:
                self._msg_queue.append((peer_no, command, payload))
""",
    """            self._inbox_put((peer_no, command, payload))
""",
    runs=4000,
)
B[-1]["edits"].append(
    (
        "bits/p2p.py",
        """    def connect_peer(self, host: Union[str, bytes], port: int):
""",
        """    def _inbox_put(self, item):
        import queue
        import threading

        if not hasattr(self, "_inbox"):
            with _INBOX_INIT:
                if not hasattr(self, "_inbox"):
                    self._inbox = queue.Queue()
                    t = threading.Thread(target=self._dispatch, daemon=True)
                    self._dispatcher = t
                    t.start()
        self._inbox.put(item)

    def _dispatch(self):
        # a single consumer: handled commands are answered here, the rest is queued
        while True:
            peer_no, command, payload = self._inbox.get()
            if command in self._registered_commands_to_handle:
                self.handle_command(peer_no, command, payload)
            else:
                self._msg_queue.append((peer_no, command, payload))
            self._inbox.task_done()

    def connect_peer(self, host: Union[str, bytes], port: int):
""",
    )
)
# everything a receive thread took off the wire must have been dispatched before its socket goes away
B[-1]["edits"].append(
    (
        "bits/p2p.py",
        """        self._peer_sockets[peer_no].close()
        log.debug(f"peer {peer_no} socket closed. exit recv_loop")
""",
        """        if hasattr(self, "_inbox"):
            self._inbox.join()
        self._peer_sockets[peer_no].close()
        log.debug(f"peer {peer_no} socket closed. exit recv_loop")
""",
    )
)
B[-1]["edits"].append(("bits/p2p.py", "from threading import Event\n", "from threading import Event, Lock\n"))
B[-1]["edits"].append(("bits/p2p.py", "log = logging.getLogger(__name__)\nlog.setLevel(logging.DEBUG)\n", "log = logging.getLogger(__name__)\nlog.setLevel(logging.DEBUG)\n_INBOX_INIT = Lock()\n"))


benign(
    "c19-lock-and-index-files",
    "C19",
    "bits/p2p.py",
    """    dat_file = open(filepath, "ab")
    for blk in blocks:
""",
    """    with open(os.path.join(datadir, ".lock"), "w") as _lock:
        _lock.write("locked\\n")
    with open(os.path.join(datadir, "blocks.idx"), "ab") as _idx:
        _idx.write(len(blocks).to_bytes(4, "little"))
    dat_file = open(filepath, "ab")
    for blk in blocks:
""",
    runs=1500,
)


benign(
    "c18-chatty-node",
    "C18",
    "bits/p2p.py",
    """    def handle_verack_command(self, peer_no: int, command: bytes, payload: dict):
        log.info("handle_verack_command: no action")
""",
    """    def handle_verack_command(self, peer_no: int, command: bytes, payload: dict):
        # handshake complete: ask the peer for addresses and announce our liveness
        self._peer_sockets[peer_no].sendall(msg_ser(MAGIC_START_BYTES, b"getaddr", b""))
        self._peer_sockets[peer_no].sendall(msg_ser(MAGIC_START_BYTES, b"ping", ping_payload(peer_no + 1)))
""",
    runs=4000,
)
benign(
    "c16-change-split-in-two",
    "C16",
    "bits/tx.py",
    """        txouts.append(txout(int(total_amount - amount_to_send), change_scriptpubkey))
""",
    """        _chg = int(total_amount - amount_to_send)
        if _chg >= 4000:
            txouts.append(txout(_chg // 2, change_scriptpubkey))
            txouts.append(txout(_chg - _chg // 2, change_scriptpubkey))
        else:
            txouts.append(txout(_chg, change_scriptpubkey))
""",
    runs=480,
)


def judge_benign(m, workers):
    root = _scratch_root()
    try:
        dst = os.path.join(root, "src")
        shutil.copytree(SRC, dst, ignore=shutil.ignore_patterns("__pycache__", "*.egg-info"))
        for file, old, new in m["edits"]:
            repl(os.path.join(dst, file), old, new)
        env = dict(os.environ, BITS_SRC=dst, VERIF_EVIDENCE_DIR=os.path.join(root, "evidence"), VERIF_REPLAY_DIR=os.path.join(root, "replays"), VERIF_WORKERS=str(workers))
        cmd = [os.path.join(ROOT, "check"), m["prop"], "--tier", "quick"]
        if m.get("runs"):
            cmd += ["--runs", str(m["runs"])]
        r = subprocess.run(cmd, capture_output=True, text=True, env=env, timeout=3600)
        bad = [l for l in r.stdout.splitlines() if l.startswith("VIOLATION ") or l.startswith("HARNESS-ERROR") or l.startswith("#   clause=")]
        if r.returncode == 0 and not bad:
            return m["id"], "SILENT", r.stdout.strip().splitlines()[-1][:160]
        return m["id"], "FALSE-ALARM" if r.returncode == 1 else "HARNESS-BROKE", " | ".join(bad[:3])[:400]
    except Exception as e:
        return m["id"], "ERROR", f"{type(e).__name__}: {e}"
    finally:
        shutil.rmtree(root, ignore_errors=True)


def _scratch_root():
    base = "/dev/shm" if os.path.isdir("/dev/shm") else tempfile.gettempdir()
    return tempfile.mkdtemp(prefix="bits-sens-", dir=base)


def judge(m, workers):
    """Returns (id, verdict, detail)."""
    root = _scratch_root()
    try:
        dst = os.path.join(root, "src")
        shutil.copytree(SRC, dst, ignore=shutil.ignore_patterns("__pycache__", "*.egg-info"))
        if "patch" in m:
            top = os.path.join(root, "tree")
            os.makedirs(top)
            os.rename(dst, os.path.join(top, "src"))
            dst = os.path.join(top, "src")
            r = subprocess.run(["git", "apply", m["patch"]], capture_output=True, text=True, cwd=top)
            if r.returncode != 0:
                r = subprocess.run(["patch", "-p1", "-d", top, "-i", m["patch"]], capture_output=True, text=True)
                if r.returncode != 0:
                    return m["id"], "ERROR", "patch does not apply: " + (r.stderr or r.stdout)[-300:]
        else:
            for file, old, new in m["edits"]:
                repl(os.path.join(dst, file), old, new)
        env = dict(os.environ, BITS_SRC=dst, VERIF_EVIDENCE_DIR=os.path.join(root, "evidence"), VERIF_REPLAY_DIR=os.path.join(root, "replays"), VERIF_WORKERS=str(workers))
        env.update(m.get("env") or {})
        cmd = [os.path.join(ROOT, "check"), m["prop"], "--tier", "quick"]
        if m.get("runs"):
            cmd += ["--runs", str(m["runs"])]
        r = subprocess.run(cmd, capture_output=True, text=True, env=env, timeout=3600)
        out = r.stdout
        vl = [l for l in out.splitlines() if l.startswith("VIOLATION ")]
        if r.returncode != 1 or not vl:
            tail = " | ".join(out.strip().splitlines()[-3:])
            return m["id"], "MISSED", f"exit={r.returncode} {tail[:300]}"
        path = re.search(r"replay=(\S+)", vl[0]).group(1)
        r2 = subprocess.run([os.path.join(ROOT, "check"), m["prop"], "--replay", path], capture_output=True, text=True, env=env, timeout=1200)
        clauses = sorted({re.search(r"clause=(\S+)", l).group(1) for l in out.splitlines() if l.startswith("#   clause=")})
        if r2.returncode != 1:
            return m["id"], "REPLAY-FAILED", f"replay exit={r2.returncode}; clauses={clauses}"
        # and the replay must be clean on the unmutated tree
        env0 = dict(env, BITS_SRC=SRC)
        r3 = subprocess.run([os.path.join(ROOT, "check"), m["prop"], "--replay", path], capture_output=True, text=True, env=env0, timeout=1200)
        note = "" if r3.returncode == 0 else f" (replay on the unmutated tree exits {r3.returncode})"
        return m["id"], "CAUGHT", f"clauses={clauses}{note}"
    except Exception as e:
        return m["id"], "ERROR", f"{type(e).__name__}: {e}"
    finally:
        shutil.rmtree(root, ignore_errors=True)


def seeded():
    out = []
    sd = os.path.join(ROOT, "seeded")
    if os.path.isdir(sd):
        for name in sorted(os.listdir(sd)):
            meta = os.path.join(sd, name, "meta.json")
            patch = os.path.join(sd, name, "patch.diff")
            if os.path.exists(meta) and os.path.exists(patch):
                with open(meta) as f:
                    md = json.load(f)
                if md.get("superseded"):
                    continue  # the code it patched was rewritten by a later fix: commit; result on record in meta.json
                exp = (md.get("check_result") or {}).get("verdict")
                out.append({"id": "seeded/" + name, "prop": md["property"], "patch": patch, "runs": md.get("runs"), "not_decided": exp == "NOT-DECIDED", "env": md.get("check_env")})
    return out


def main(a):
    muts = list(M) + seeded() + list(B)
    if a.only:
        muts = [m for m in muts if a.only in m["id"] or a.only == m["prop"]]
    par = 4
    res = []
    nd = {m["id"] for m in muts if m.get("not_decided")}
    with cf.ThreadPoolExecutor(par) as ex:
        futs = [ex.submit(judge_benign if m.get("benign") else judge, m, 4) for m in muts]
        for f in cf.as_completed(futs):
            mid, verdict, detail = f.result()
            if mid in nd and verdict == "MISSED":
                verdict, detail = "NOT-DECIDED", "outside the claimed scope of this property's check (see meta.json / DESIGN.md 9.7); " + detail[:80]
            print(f"{verdict:14s} {mid:40s} {detail}", flush=True)
            res.append((mid, verdict))
    missed = [r for r in res if r[1] not in ("CAUGHT", "NOT-DECIDED", "SILENT")]
    n_b = sum(1 for r in res if r[0].startswith("benign/"))
    print(f"# sensitivity: {len(res) - len(missed)}/{len(res)} as expected ({len(res) - n_b} breaking changes must be CAUGHT, {n_b} benign refactors must stay SILENT); not as expected: {[m for m, _ in missed]}")
    return 0 if not missed else 1
